package actionlint

import (
	"fmt"
	"io"
	"os"
	"strings"
	"testing"
	"unicode/utf8"
)

// The test binary itself is used as stand-in for shellcheck: when HUNTC20_FAKE_SC is set, the process reads
// the script from stdin, looks for the word `$unquoted` and reports SC2086 at its line and column (1-based,
// columns counted in characters as shellcheck does) in shellcheck's JSON format.
func init() {
	if os.Getenv("HUNTC20_FAKE_SC") == "" {
		return
	}
	b, _ := io.ReadAll(os.Stdin)
	issues := []string{}
	for i, l := range strings.Split(string(b), "\n") {
		if idx := strings.Index(l, "$unquoted"); idx >= 0 {
			col := utf8.RuneCountInString(l[:idx]) + 1
			issues = append(issues, fmt.Sprintf(
				`{"file":"-","line":%d,"endLine":%d,"column":%d,"endColumn":%d,"level":"info","code":2086,"message":"Double quote to prevent globbing and word splitting.","fix":null}`,
				i+1, i+1, col, col+len("$unquoted")))
		}
	}
	fmt.Printf("[%s]", strings.Join(issues, ","))
	if len(issues) > 0 {
		os.Exit(1)
	}
	os.Exit(0)
}

// Lints a workflow with one step running the script and returns the shellcheck diagnostics.
func huntC20N2Lint(t *testing.T, script string) []*Error {
	t.Helper()
	exe, err := os.Executable()
	if err != nil {
		t.Fatal(err)
	}
	t.Setenv("HUNTC20_FAKE_SC", "1")

	src := `on: push
jobs:
  test:
    runs-on: ubuntu-latest
    steps:
      - run: |
`
	for _, l := range strings.Split(script, "\n") {
		src += "          " + l + "\n"
	}

	l, err := NewLinter(io.Discard, &LinterOptions{Shellcheck: exe})
	if err != nil {
		t.Fatal(err)
	}
	errs, err := l.Lint("test.yaml", []byte(src), nil)
	if err != nil {
		t.Fatal(err)
	}
	var ret []*Error
	for _, e := range errs {
		if e.Kind == "shellcheck" {
			ret = append(ret, e)
		}
	}
	return ret
}

// Position (line, column in characters) of `$unquoted` in the script as written by the user.
func huntC20N2Want(script string) string {
	for i, l := range strings.Split(script, "\n") {
		if idx := strings.Index(l, "$unquoted"); idx >= 0 {
			return fmt.Sprintf("SC2086:info:%d:%d:", i+1, utf8.RuneCountInString(l[:idx])+1)
		}
	}
	panic("no $unquoted in script")
}

func huntC20N2Check(t *testing.T, script string) {
	t.Helper()
	errs := huntC20N2Lint(t, script)
	if len(errs) != 1 {
		t.Fatalf("expected one shellcheck diagnostic but got %v", errs)
	}
	want := huntC20N2Want(script)
	if !strings.Contains(errs[0].Message, want) {
		t.Fatalf("the offset reported for `$unquoted` is not valid for the script in the workflow\nscript:\n%s\nwant %q in the message, got: %s", script, want, errs[0].Message)
	}
}

// Control: placeholder on one line with ASCII text only. The reported offsets are the offsets in the user's script.
func huntC20N2Control(t *testing.T) {
	t.Helper()
	script := "echo ${{ github.sha }} $unquoted\necho ${{ github.ref }}\necho $unquoted"
	errs := huntC20N2Lint(t, script)
	if len(errs) != 2 {
		t.Fatalf("control case: expected two diagnostics but got %v", errs)
	}
	m := errs[0].Message + "\n" + errs[1].Message
	if !strings.Contains(m, "SC2086:info:1:24:") || !strings.Contains(m, "SC2086:info:3:6:") {
		t.Fatalf("control case: unexpected offsets: %s", m)
	}
}

// ${{ }} may span several lines. It is replaced by a placeholder on ONE line, so every issue in the lines below
// is reported at a wrong line.
func TestHuntC20N2MultiLinePlaceholderShiftsLines(t *testing.T) {
	huntC20N2Control(t)
	huntC20N2Check(t, "echo ${{\n  github.sha\n}}\necho $unquoted")
}

// ${{ }} may contain non-ASCII characters. The placeholder has as many characters as the expression has bytes,
// so every issue behind it on the same line is reported at a wrong column (shellcheck counts characters).
func TestHuntC20N2NonASCIIPlaceholderShiftsColumns(t *testing.T) {
	huntC20N2Control(t)
	huntC20N2Check(t, "echo ${{ github.event.label.name == 'バグ' }} $unquoted")
}
