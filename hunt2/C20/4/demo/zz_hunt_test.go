package actionlint

import (
	"io"
	"os"
	"path/filepath"
	"strconv"
	"strings"
	"testing"
)

// The test binary itself is used as stand-in for shellcheck and pyflakes: when HUNTC20_FAKE_LOG is set, the
// process appends the script read from stdin to that file (one quoted line per invocation) and reports no issue.
func init() {
	p := os.Getenv("HUNTC20_FAKE_LOG")
	if p == "" {
		return
	}
	b, _ := io.ReadAll(os.Stdin)
	f, err := os.OpenFile(p, os.O_APPEND|os.O_CREATE|os.O_WRONLY, 0o644)
	if err != nil {
		os.Exit(3)
	}
	f.WriteString(strconv.Quote(string(b)) + "\n")
	f.Close()
	if len(os.Args) > 1 { // shellcheck is called with arguments and prints JSON, pyflakes prints nothing
		os.Stdout.WriteString("[]")
	}
	os.Exit(0)
}

// Lints the workflow and returns scripts passed to the tools
func huntC20N4Lint(t *testing.T, src string) []string {
	t.Helper()
	exe, err := os.Executable()
	if err != nil {
		t.Fatal(err)
	}
	log := filepath.Join(t.TempDir(), "invocations.log")
	t.Setenv("HUNTC20_FAKE_LOG", log)

	l, err := NewLinter(io.Discard, &LinterOptions{Shellcheck: exe, Pyflakes: exe})
	if err != nil {
		t.Fatal(err)
	}
	errs, err := l.Lint("test.yaml", []byte(src), nil)
	if err != nil {
		t.Fatal(err)
	}
	if len(errs) > 0 {
		// actionlint's own "shell-name" rule accepts these shell names (it compares them case-insensitively
		// as the runner does), so the scripts are not left unchecked because of an invalid shell name.
		t.Fatalf("no diagnostic is expected for the workflow: %v", errs)
	}

	b, err := os.ReadFile(log)
	if err != nil {
		if os.IsNotExist(err) {
			return nil
		}
		t.Fatal(err)
	}
	var ret []string
	for _, l := range strings.Split(strings.TrimSpace(string(b)), "\n") {
		s, err := strconv.Unquote(l)
		if err != nil {
			t.Fatal(err)
		}
		ret = append(ret, s)
	}
	return ret
}

func huntC20N4Count(scripts []string, sub string) int {
	c := 0
	for _, s := range scripts {
		if strings.Contains(s, sub) {
			c++
		}
	}
	return c
}

// Control: with lower case names every script is passed to its tool once.
func huntC20N4Control(t *testing.T) {
	t.Helper()
	scripts := huntC20N4Lint(t, `on: push
defaults:
  run:
    shell: bash
jobs:
  test:
    runs-on: macos-latest
    steps:
      - run: echo workflow-default
      - run: echo step-shell
        shell: sh
      - run: print("python-script")
        shell: python
`)
	for _, s := range []string{"workflow-default", "step-shell", "python-script"} {
		if c := huntC20N4Count(scripts, s); c != 1 {
			t.Fatalf("control case: script %q was passed to the tool %d times: %q", s, c, scripts)
		}
	}
}

// Shell names are case insensitive (the runner looks them up ignoring case, and actionlint's shell-name rule
// accepts "Bash", "SH", "Python" as the built-in shells). So the effective shell of these scripts is bash, sh and
// python and they must be passed to shellcheck/pyflakes once each.
func TestHuntC20N4ShellNameInOtherLetterCaseIsNotChecked(t *testing.T) {
	huntC20N4Control(t)

	scripts := huntC20N4Lint(t, `on: push
defaults:
  run:
    shell: Bash
jobs:
  test:
    runs-on: macos-latest
    steps:
      - run: echo workflow-default
      - run: echo step-shell
        shell: SH
      - run: print("python-script")
        shell: Python
`)
	for _, s := range []string{"workflow-default", "step-shell", "python-script"} {
		if c := huntC20N4Count(scripts, s); c != 1 {
			t.Errorf("script %q must be passed to the tool exactly once but was passed %d times. all scripts passed to tools: %q", s, c, scripts)
		}
	}
}
