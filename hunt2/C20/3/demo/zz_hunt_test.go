package actionlint

import (
	"io"
	"os"
	"path/filepath"
	"testing"
)

const huntC20N3Workflow = `on: push
jobs:
  test:
    runs-on: ubuntu-latest
    steps:
      - run: echo $unquoted
      - run: print(undefined_name)
        shell: python
`

func huntC20N3Lint(t *testing.T, opts *LinterOptions) ([]*Error, error) {
	t.Helper()
	l, err := NewLinter(io.Discard, opts)
	if err != nil {
		t.Fatal(err)
	}
	return l.Lint("test.yaml", []byte(huntC20N3Workflow), nil)
}

// The integrations are enabled (non-empty command) but the tool cannot be started because the file does not
// exist. The property requires a fatal error. Instead the linter reports success with no diagnostic for the
// scripts, exactly as if the tools had checked the scripts and found nothing.
func TestHuntC20N3MissingToolIsNotFatal(t *testing.T) {
	dir := t.TempDir()
	errs, err := huntC20N3Lint(t, &LinterOptions{
		Shellcheck: filepath.Join(dir, "shellcheck"),
		Pyflakes:   filepath.Join(dir, "pyflakes"),
	})
	if err == nil {
		t.Fatalf("shellcheck and pyflakes could not be started (no such file), but no fatal error was returned. diagnostics: %v", errs)
	}
}

// Same for a tool which exists but cannot be started because it is not executable.
func TestHuntC20N3NonExecutableToolIsNotFatal(t *testing.T) {
	dir := t.TempDir()
	sc := filepath.Join(dir, "shellcheck")
	if err := os.WriteFile(sc, []byte("#!/bin/sh\necho '[]'\n"), 0o644); err != nil { // no x bit
		t.Fatal(err)
	}
	errs, err := huntC20N3Lint(t, &LinterOptions{Shellcheck: sc})
	if err == nil {
		t.Fatalf("shellcheck could not be started (permission denied), but no fatal error was returned. diagnostics: %v", errs)
	}
}
