package actionlint

import (
	"io"
	"os"
	"strings"
	"testing"
)

// The test binary itself is used as stand-in for pyflakes: when HUNTC20_FAKE_OUT is set, the process reads
// its stdin, prints the given text to stdout and exits with status 1 (as pyflakes does when it found issues).
func init() {
	out, ok := os.LookupEnv("HUNTC20_FAKE_OUT")
	if !ok {
		return
	}
	io.Copy(io.Discard, os.Stdin)
	os.Stdout.WriteString(out)
	os.Exit(1)
}

func huntC20N1Lint(t *testing.T, toolOutput, script string) []string {
	t.Helper()
	exe, err := os.Executable()
	if err != nil {
		t.Fatal(err)
	}
	t.Setenv("HUNTC20_FAKE_OUT", toolOutput)

	src := `on: push
jobs:
  test:
    runs-on: ubuntu-latest
    steps:
      - shell: python
        run: |
`
	for _, l := range strings.Split(script, "\n") {
		src += "          " + l + "\n"
	}

	l, err := NewLinter(io.Discard, &LinterOptions{Pyflakes: exe})
	if err != nil {
		t.Fatal(err)
	}
	errs, err := l.Lint("test.yaml", []byte(src), nil)
	if err != nil {
		t.Fatal(err)
	}

	var got []string
	for _, e := range errs {
		if e.Kind == "pyflakes" {
			if e.Line != 7 || e.Column != 9 {
				t.Errorf("diagnostic is not at the run: key (7:9): %v", e)
			}
			got = append(got, e.Error())
		}
	}
	return got
}

// pyflakes prints ONE issue (a syntax error; pyflakes echoes the offending source line and a caret below the
// message). The property requires exactly one diagnostic for it at the step's "run:" key.
func TestHuntC20N1PyflakesSyntaxErrorEchoIsCountedAsSecondIssue(t *testing.T) {
	// Control: the same kind of issue for a script which does not mention "<stdin>:" gives one diagnostic.
	got := huntC20N1Lint(t,
		"<stdin>:3:13: '(' was never closed\n"+
			"m = re.match(\"(\\d+):(\\d+): (.*)\", line\n"+
			"            ^\n",
		"import re, sys\n"+
			"line = sys.stdin.readline()\n"+
			"m = re.match(\"(\\d+):(\\d+): (.*)\", line\n"+
			"print(m.group(3))")
	if len(got) != 1 {
		t.Fatalf("control case: expected one diagnostic but got %d: %v", len(got), got)
	}

	// Output of pyflakes (Python 3.10+) for the script below: one issue, printed as three lines.
	got = huntC20N1Lint(t,
		"<stdin>:3:13: '(' was never closed\n"+
			"m = re.match(\"<stdin>:(\\d+):(\\d+): (.*)\", line\n"+
			"            ^\n",
		"import re, sys\n"+
			"line = sys.stdin.readline()\n"+
			"m = re.match(\"<stdin>:(\\d+):(\\d+): (.*)\", line\n"+
			"print(m.group(3))")
	if len(got) != 1 {
		t.Fatalf("pyflakes printed exactly one issue so exactly one diagnostic is expected, but got %d:\n%s", len(got), strings.Join(got, "\n"))
	}
}
