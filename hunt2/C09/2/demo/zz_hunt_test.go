package actionlint

import (
	"fmt"
	"io"
	"strings"
	"testing"
)

func huntC09N2Lint(t *testing.T, src string) []*Error {
	t.Helper()
	l, err := NewLinter(io.Discard, &LinterOptions{})
	if err != nil {
		t.Fatal(err)
	}
	errs, err := l.Lint("<stdin>", []byte(src), nil)
	if err != nil {
		t.Fatal(err)
	}
	return errs
}

func huntC09N2Job(id, needs string) string {
	return fmt.Sprintf("  %s:\n    needs: %s\n    runs-on: ubuntu-latest\n    steps:\n      - run: echo hi\n", id, needs)
}

// Jobs "c" and "d" need each other. Jobs "a" and "b" are unrelated to them (no "needs" edge
// between the two pairs). The cyclic dependency of "c" and "d" must be reported whether or not
// "a" and "b" are in the workflow, and the error in "a"/"b" must not hide it.
func TestHuntC09N2CycleInUnrelatedJobsHidesCycle(t *testing.T) {
	cd := huntC09N2Job("c", "d") + huntC09N2Job("d", "c")
	ab := huntC09N2Job("a", "b") + huntC09N2Job("b", "a")

	alone := huntC09N2Lint(t, "on: push\njobs:\n"+cd)
	if len(alone) != 1 || alone[0].Line != 3 || alone[0].Kind != "job-needs" || !strings.Contains(alone[0].Message, `"c" -> "d" -> "c"`) {
		t.Fatalf("cycle of c and d should be reported at job c (line 3) when they are alone: %v", alone)
	}

	// Job "c" starts at line 13 in this workflow since "a" and "b" are 5 lines for each
	composed := huntC09N2Lint(t, "on: push\njobs:\n"+ab+cd)
	found := false
	for _, e := range composed {
		t.Logf("composed: %d:%d [%s] %s", e.Line, e.Column, e.Kind, e.Message)
		if e.Line == 13 && e.Column == alone[0].Column && e.Kind == alone[0].Kind && e.Message == alone[0].Message {
			found = true
		}
	}
	if !found {
		t.Errorf("diagnostic %q of job c at line 3 disappeared from line 13 after adding unrelated jobs a and b before it", alone[0].Message)
	}

	// The same happens in the other direction: which of the two cycles is reported depends on the order of jobs
	composed = huntC09N2Lint(t, "on: push\njobs:\n"+cd+ab)
	found = false
	for _, e := range composed {
		t.Logf("reordered: %d:%d [%s] %s", e.Line, e.Column, e.Kind, e.Message)
		if e.Line == 13 && e.Kind == "job-needs" && strings.Contains(e.Message, `"a" -> "b" -> "a"`) {
			found = true
		}
	}
	if !found {
		t.Errorf("cycle of a and b is not reported when jobs c and d are put before them")
	}
}
