package actionlint

import (
	"fmt"
	"io"
	"os"
	"path/filepath"
	"sort"
	"strings"
	"testing"
)

// Diagnostics reported inside the job with the given ID, as
// (line relative to the job, column, kind, message).
func huntC09N1Diags(t *testing.T, proj *Project, src string, jobID string) []string {
	t.Helper()
	l, err := NewLinter(io.Discard, &LinterOptions{})
	if err != nil {
		t.Fatal(err)
	}
	path := filepath.Join(proj.RootDir(), ".github", "workflows", "test.yml")
	errs, err := l.Lint(path, []byte(src), proj)
	if err != nil {
		t.Fatal(err)
	}

	// Find the lines of the job (jobs are indented with 2 spaces in the inputs of this test)
	lines := strings.Split(src, "\n")
	start, end := 0, len(lines)+1
	for i, s := range lines {
		if s == "  "+jobID+":" {
			start = i + 1
			continue
		}
		if start > 0 && i+1 > start && strings.HasPrefix(s, "  ") && !strings.HasPrefix(s, "   ") {
			end = i + 1
			break
		}
	}
	if start == 0 {
		t.Fatalf("job %q not found", jobID)
	}

	ret := []string{}
	for _, e := range errs {
		if start <= e.Line && e.Line < end {
			ret = append(ret, fmt.Sprintf("+%d:%d [%s] %s", e.Line-start, e.Column, e.Kind, e.Message))
		}
	}
	sort.Strings(ret)
	return ret
}

func huntC09N1Project(t *testing.T) *Project {
	t.Helper()
	dir := t.TempDir()
	if err := os.MkdirAll(filepath.Join(dir, ".github", "workflows"), 0o755); err != nil {
		t.Fatal(err)
	}
	proj, err := NewProject(dir)
	if err != nil {
		t.Fatal(err)
	}
	return proj
}

const huntC09N1Callee = `  callee:
    uses: ./.github/workflows/missing.yml
`

const huntC09N1User = `  user:
    needs: callee
    runs-on: ubuntu-latest
    steps:
      - run: echo hi
`

// Job "callee" needs no job. Its diagnostics must not depend on whether another job which needs
// it exists in the workflow.
func TestHuntC09N1AddingJobThatNeedsCalleeChangesCalleeDiagnostic(t *testing.T) {
	proj := huntC09N1Project(t)

	alone := huntC09N1Diags(t, proj, "on: push\njobs:\n"+huntC09N1Callee, "callee")
	composed := huntC09N1Diags(t, proj, "on: push\njobs:\n"+huntC09N1User+huntC09N1Callee, "callee")

	if len(alone) != 1 {
		t.Fatalf("one diagnostic is expected for the job alone: %v", alone)
	}
	if strings.Join(alone, "\n") != strings.Join(composed, "\n") {
		t.Errorf("diagnostics of job \"callee\" changed by adding job \"user\" before it\nalone:    %v\ncomposed: %v", alone, composed)
	}
}

// Reordering the two jobs must not change the diagnostics of "callee" apart from line offsets.
func TestHuntC09N1ReorderingJobsChangesCalleeDiagnostic(t *testing.T) {
	proj := huntC09N1Project(t)

	calleeFirst := huntC09N1Diags(t, proj, "on: push\njobs:\n"+huntC09N1Callee+huntC09N1User, "callee")
	userFirst := huntC09N1Diags(t, proj, "on: push\njobs:\n"+huntC09N1User+huntC09N1Callee, "callee")

	if strings.Join(calleeFirst, "\n") != strings.Join(userFirst, "\n") {
		t.Errorf("diagnostics of job \"callee\" changed by reordering jobs\ncallee first: %v\nuser first:   %v", calleeFirst, userFirst)
	}
}
