package actionlint

import (
	"fmt"
	"io"
	"os"
	"path/filepath"
	"sort"
	"strings"
	"testing"
)

func huntC09N3Project(t *testing.T) *Project {
	t.Helper()
	dir := t.TempDir()
	if err := os.MkdirAll(filepath.Join(dir, ".github", "workflows"), 0o755); err != nil {
		t.Fatal(err)
	}
	act := filepath.Join(dir, ".github", "actions", "broken")
	if err := os.MkdirAll(act, 0o755); err != nil {
		t.Fatal(err)
	}
	// "description" is missing and the file at "main" does not exist
	meta := "name: broken\nruns:\n  using: node20\n  main: index.js\n"
	if err := os.WriteFile(filepath.Join(act, "action.yml"), []byte(meta), 0o644); err != nil {
		t.Fatal(err)
	}
	proj, err := NewProject(dir)
	if err != nil {
		t.Fatal(err)
	}
	return proj
}

// Diagnostics reported in lines [start, end) as (line relative to start, column, kind, message)
func huntC09N3Diags(t *testing.T, proj *Project, src string, start, end int) []string {
	t.Helper()
	l, err := NewLinter(io.Discard, &LinterOptions{})
	if err != nil {
		t.Fatal(err)
	}
	path := filepath.Join(proj.RootDir(), ".github", "workflows", "test.yml")
	errs, err := l.Lint(path, []byte(src), proj)
	if err != nil {
		t.Fatal(err)
	}
	ret := []string{}
	for _, e := range errs {
		if start <= e.Line && e.Line < end {
			ret = append(ret, fmt.Sprintf("+%d:%d [%s] %s", e.Line-start, e.Column, e.Kind, e.Message))
		}
	}
	sort.Strings(ret)
	return ret
}

// Two unrelated jobs run the same local action. Diagnostics of job "two" must be the same whether
// or not job "one" exists.
func TestHuntC09N3UnrelatedJobHidesLocalActionDiagnostics(t *testing.T) {
	proj := huntC09N3Project(t)

	job := func(id string) string {
		return "  " + id + ":\n    runs-on: ubuntu-latest\n    steps:\n      - uses: ./.github/actions/broken\n"
	}

	// Job "two" at line 3..6
	alone := huntC09N3Diags(t, proj, "on: push\njobs:\n"+job("two"), 3, 7)
	if len(alone) == 0 {
		t.Fatal("diagnostics are expected for the job using the broken local action")
	}
	// Job "one" at line 3..6, job "two" at line 7..10
	composed := huntC09N3Diags(t, proj, "on: push\njobs:\n"+job("one")+job("two"), 7, 11)

	if strings.Join(alone, "\n") != strings.Join(composed, "\n") {
		t.Errorf("diagnostics of job \"two\" changed by adding unrelated job \"one\"\nalone:\n  %s\ncomposed:\n  %s", strings.Join(alone, "\n  "), strings.Join(composed, "\n  "))
	}
}

// The same for steps. The two steps have no ID. Diagnostics of the second step must not depend on
// the first step.
func TestHuntC09N3EarlierStepHidesLocalActionDiagnostics(t *testing.T) {
	proj := huntC09N3Project(t)

	head := "on: push\njobs:\n  test:\n    runs-on: ubuntu-latest\n    steps:\n"
	step := "      - uses: ./.github/actions/broken\n"
	other := "      - run: echo hi\n"

	// The step is at line 7 in both workflows
	alone := huntC09N3Diags(t, proj, head+other+step, 7, 8)
	if len(alone) == 0 {
		t.Fatal("diagnostics are expected for the step using the broken local action")
	}
	composed := huntC09N3Diags(t, proj, head+step+step, 7, 8)

	if strings.Join(alone, "\n") != strings.Join(composed, "\n") {
		t.Errorf("diagnostics of the second step changed by replacing the unrelated first step\nafter 'run: echo hi':\n  %s\nafter another 'uses: ./.github/actions/broken':\n  %s", strings.Join(alone, "\n  "), strings.Join(composed, "\n  "))
	}
}
