package actionlint

import (
	"fmt"
	"io"
	"os"
	"path/filepath"
	"sort"
	"strings"
	"testing"
)

func huntC09N4Project(t *testing.T) *Project {
	t.Helper()
	dir := t.TempDir()
	if err := os.MkdirAll(filepath.Join(dir, ".github", "workflows"), 0o755); err != nil {
		t.Fatal(err)
	}
	// This reusable workflow has no "workflow_call" trigger so it cannot be called
	if err := os.WriteFile(filepath.Join(dir, ".github", "workflows", "notcallable.yml"), []byte("on: push\njobs: {}\n"), 0o644); err != nil {
		t.Fatal(err)
	}
	proj, err := NewProject(dir)
	if err != nil {
		t.Fatal(err)
	}
	return proj
}

// Diagnostics reported in lines [start, end) as (line relative to start, column, kind, message)
func huntC09N4Diags(t *testing.T, proj *Project, src string, start, end int) []string {
	t.Helper()
	l, err := NewLinter(io.Discard, &LinterOptions{})
	if err != nil {
		t.Fatal(err)
	}
	path := filepath.Join(proj.RootDir(), ".github", "workflows", "test.yml")
	errs, err := l.Lint(path, []byte(src), proj)
	if err != nil {
		t.Fatal(err)
	}
	ret := []string{}
	for _, e := range errs {
		if start <= e.Line && e.Line < end {
			ret = append(ret, fmt.Sprintf("+%d:%d [%s] %s", e.Line-start, e.Column, e.Kind, e.Message))
		}
	}
	sort.Strings(ret)
	return ret
}

// Two unrelated jobs (no "needs" between them) call a local reusable workflow which cannot be
// used. Diagnostics of job "two" must be the same whether or not job "one" exists.
func TestHuntC09N4UnrelatedJobHidesReusableWorkflowError(t *testing.T) {
	proj := huntC09N4Project(t)

	for _, spec := range []string{"./.github/workflows/missing.yml", "./.github/workflows/notcallable.yml"} {
		job := func(id string) string {
			return "  " + id + ":\n    uses: " + spec + "\n"
		}

		// Job "two" at line 3..4
		alone := huntC09N4Diags(t, proj, "on: push\njobs:\n"+job("two"), 3, 5)
		if len(alone) != 1 {
			t.Fatalf("%s: one diagnostic is expected for the job alone: %v", spec, alone)
		}
		// Job "one" at line 3..4, job "two" at line 5..6
		composed := huntC09N4Diags(t, proj, "on: push\njobs:\n"+job("one")+job("two"), 5, 7)

		if strings.Join(alone, "\n") != strings.Join(composed, "\n") {
			t.Errorf("%s: diagnostics of job \"two\" changed by adding unrelated job \"one\"\nalone:    %v\ncomposed: %v", spec, alone, composed)
		}
	}
}

// The same across files: diagnostics of a workflow file must be the same whether it is checked
// alone or with other unrelated workflow files.
func TestHuntC09N4OtherFilesHideReusableWorkflowError(t *testing.T) {
	proj := huntC09N4Project(t)

	src := "on: push\njobs:\n  one:\n    uses: ./.github/workflows/missing.yml\n"
	files := []string{}
	for i := 0; i < 4; i++ {
		p := filepath.Join(proj.RootDir(), ".github", "workflows", fmt.Sprintf("w%d.yml", i))
		if err := os.WriteFile(p, []byte(src), 0o644); err != nil {
			t.Fatal(err)
		}
		files = append(files, p)
	}

	count := func(errs []*Error) map[string]int {
		m := map[string]int{}
		for _, e := range errs {
			m[filepath.Base(e.Filepath)]++
		}
		return m
	}

	alone := map[string]int{}
	for _, f := range files {
		l, err := NewLinter(io.Discard, &LinterOptions{})
		if err != nil {
			t.Fatal(err)
		}
		errs, err := l.LintFile(f, proj)
		if err != nil {
			t.Fatal(err)
		}
		for k, v := range count(errs) {
			alone[k] += v
		}
	}

	l, err := NewLinter(io.Discard, &LinterOptions{})
	if err != nil {
		t.Fatal(err)
	}
	errs, err := l.LintFiles(files, proj)
	if err != nil {
		t.Fatal(err)
	}
	together := count(errs)

	for _, f := range files {
		b := filepath.Base(f)
		if alone[b] != together[b] {
			t.Errorf("%s: %d diagnostic(s) when the file is checked alone but %d diagnostic(s) when it is checked with the other files", b, alone[b], together[b])
		}
	}
}
