package actionlint

import (
	"fmt"
	"io"
	"os"
	"path/filepath"
	"strings"
	"testing"
)

func huntC08N4Lint(t *testing.T, src string, files map[string]string) []string {
	t.Helper()
	l, err := NewLinter(io.Discard, &LinterOptions{})
	if err != nil {
		t.Fatal(err)
	}
	dir := t.TempDir()
	if err := os.MkdirAll(filepath.Join(dir, ".github", "workflows"), 0o755); err != nil {
		t.Fatal(err)
	}
	for p, c := range files {
		fp := filepath.Join(dir, filepath.FromSlash(p))
		if err := os.MkdirAll(filepath.Dir(fp), 0o755); err != nil {
			t.Fatal(err)
		}
		if err := os.WriteFile(fp, []byte(c), 0o644); err != nil {
			t.Fatal(err)
		}
	}
	proj, err := NewProject(dir)
	if err != nil {
		t.Fatal(err)
	}
	errs, err := l.Lint(filepath.Join(dir, ".github", "workflows", "test.yaml"), []byte(src), proj)
	if err != nil {
		t.Fatal(err)
	}
	ret := []string{}
	for _, e := range errs {
		ret = append(ret, fmt.Sprintf("%d:%d [%s] %s", e.Line, e.Column, e.Kind, e.Message))
	}
	return ret
}

func huntC08N4SameModuloCase(t *testing.T, what string, a, b []string) {
	t.Helper()
	same := len(a) == len(b)
	if same {
		for i := range a {
			if strings.ToLower(a[i]) != strings.ToLower(b[i]) {
				same = false
			}
		}
	}
	if !same {
		t.Errorf("%s: diagnostics differ in more than the letter case of the echoed names\n--- variant A:\n%s\n--- variant B:\n%s", what, strings.Join(a, "\n"), strings.Join(b, "\n"))
	}
}

// Input "beta" of a local reusable workflow is renamed to "Beta". The message which lists defined
// inputs must change only in the spelling of the name.
func TestHuntC08N4ReusableWorkflowInputList(t *testing.T) {
	reusable := func(a, b string) map[string]string {
		return map[string]string{
			".github/workflows/reusable.yml": "on:\n  workflow_call:\n    inputs:\n      " + a + ":\n        type: string\n      " + b + ":\n        type: string\njobs:\n  a:\n    runs-on: ubuntu-latest\n    steps:\n      - run: echo\n",
		}
	}
	caller := "on: push\njobs:\n  call:\n    uses: ./.github/workflows/reusable.yml\n    with:\n      unknown: 1\n"
	ea := huntC08N4Lint(t, caller, reusable("alpha", "beta"))
	eb := huntC08N4Lint(t, caller, reusable("alpha", "Beta"))
	huntC08N4SameModuloCase(t, "reusable workflow input list", ea, eb)
}

// Same for inputs of a local action.
func TestHuntC08N4LocalActionInputList(t *testing.T) {
	action := func(a, b string) map[string]string {
		return map[string]string{
			"act/action.yml": "name: my\ndescription: my\ninputs:\n  " + a + ":\n    default: x\n  " + b + ":\n    default: y\nruns:\n  using: composite\n  steps: []\n",
		}
	}
	wf := "on: push\njobs:\n  test:\n    runs-on: ubuntu-latest\n    steps:\n      - uses: ./act\n        with:\n          unknown: 1\n"
	ea := huntC08N4Lint(t, wf, action("alpha", "beta"))
	eb := huntC08N4Lint(t, wf, action("alpha", "Beta"))
	huntC08N4SameModuloCase(t, "local action input list", ea, eb)
}
