package actionlint

import (
	"fmt"
	"io"
	"os"
	"path/filepath"
	"reflect"
	"strings"
	"testing"
)

// Lints the workflow source and returns "line:col [kind]" of every diagnostic plus the full texts.
// When files is not nil, a project is created in a temporary directory with the given files and the
// workflow is linted as .github/workflows/test.yaml of the project.
func huntC08N1Lint(t *testing.T, src string, files map[string]string) (keys []string, full []string) {
	t.Helper()
	l, err := NewLinter(io.Discard, &LinterOptions{})
	if err != nil {
		t.Fatal(err)
	}
	var proj *Project
	path := "test.yaml"
	if files != nil {
		dir := t.TempDir()
		if err := os.MkdirAll(filepath.Join(dir, ".github", "workflows"), 0o755); err != nil {
			t.Fatal(err)
		}
		for p, c := range files {
			fp := filepath.Join(dir, filepath.FromSlash(p))
			if err := os.MkdirAll(filepath.Dir(fp), 0o755); err != nil {
				t.Fatal(err)
			}
			if err := os.WriteFile(fp, []byte(c), 0o644); err != nil {
				t.Fatal(err)
			}
		}
		if proj, err = NewProject(dir); err != nil {
			t.Fatal(err)
		}
		path = filepath.Join(dir, ".github", "workflows", "test.yaml")
	}
	errs, err := l.Lint(path, []byte(src), proj)
	if err != nil {
		t.Fatal(err)
	}
	keys, full = []string{}, []string{}
	for _, e := range errs {
		keys = append(keys, fmt.Sprintf("%d:%d [%s]", e.Line, e.Column, e.Kind))
		full = append(full, fmt.Sprintf("%d:%d [%s] %s", e.Line, e.Column, e.Kind, e.Message))
	}
	return
}

func huntC08N1SameDiagnostics(t *testing.T, what, a, b string, filesA, filesB map[string]string) {
	t.Helper()
	ka, fa := huntC08N1Lint(t, a, filesA)
	kb, fb := huntC08N1Lint(t, b, filesB)
	if !reflect.DeepEqual(ka, kb) {
		t.Errorf("%s: changing only the letter case of a name changed the reported diagnostics\n--- variant A (%d):\n%s\n--- variant B (%d):\n%s",
			what, len(fa), strings.Join(fa, "\n"), len(fb), strings.Join(fb, "\n"))
	}
}

// workflow_dispatch input defined as upper-case Greek word, used with its ordinary lower-case
// spelling (which ends with the final sigma U+03C2). Upper case of "κόσμος" is "ΚΌΣΜΟΣ".
func TestHuntC08N1GreekDispatchInput(t *testing.T) {
	if strings.ToUpper("κόσμος") != "ΚΌΣΜΟΣ" {
		t.Fatal("test premise is wrong")
	}
	a := `on:
  workflow_dispatch:
    inputs:
      "κόσμος":
        type: string
jobs:
  test:
    runs-on: ubuntu-latest
    steps:
      - run: echo ${{ inputs['κόσμος'] }}
`
	// Only the definition is upper-cased
	b := strings.Replace(a, `"κόσμος":`, `"ΚΌΣΜΟΣ":`, 1)
	huntC08N1SameDiagnostics(t, "dispatch input definition upper-cased", a, b, nil, nil)
}

// Matrix row named with a lower-case word, used with its upper-case spelling.
func TestHuntC08N1MatrixRowUse(t *testing.T) {
	for _, name := range []string{"ος", "ſize", "µs"} {
		a := "on: push\njobs:\n  test:\n    runs-on: ubuntu-latest\n    strategy:\n      matrix:\n        \"" + name + "\": [1, 2]\n    steps:\n      - run: echo ${{ matrix['" + name + "'] }}\n"
		// Only the use is upper-cased
		b := strings.Replace(a, "matrix['"+name+"']", "matrix['"+strings.ToUpper(name)+"']", 1)
		huntC08N1SameDiagnostics(t, "matrix row "+name+" used as "+strings.ToUpper(name), a, b, nil, nil)
	}
}

// Key of a JSON literal passed to fromJSON.
func TestHuntC08N1JSONKey(t *testing.T) {
	a := "on: push\njobs:\n  test:\n    runs-on: ubuntu-latest\n    steps:\n      - run: echo ${{ fromJSON('{\"οδός\":1}')['οδός'] }}\n"
	b := strings.Replace(a, `{"οδός":1}`, `{"ΟΔΌΣ":1}`, 1)
	huntC08N1SameDiagnostics(t, "JSON key upper-cased", a, b, nil, nil)
}

// Input of a local reusable workflow (definition in one file) and key of "with:" in the caller.
func TestHuntC08N1ReusableWorkflowInput(t *testing.T) {
	reusable := func(name string) map[string]string {
		return map[string]string{
			".github/workflows/reusable.yml": "on:\n  workflow_call:\n    inputs:\n      \"" + name + "\":\n        type: string\n        required: true\njobs:\n  a:\n    runs-on: ubuntu-latest\n    steps:\n      - run: echo\n",
		}
	}
	caller := "on: push\njobs:\n  call:\n    uses: ./.github/workflows/reusable.yml\n    with:\n      \"κόσμος\": hello\n"
	huntC08N1SameDiagnostics(t, "reusable workflow input definition upper-cased", caller, caller, reusable("κόσμος"), reusable("ΚΌΣΜΟΣ"))
}
