package actionlint

import (
	"fmt"
	"io"
	"reflect"
	"strings"
	"testing"
)

func huntC08N2Lint(t *testing.T, src string) (keys []string, full []string) {
	t.Helper()
	l, err := NewLinter(io.Discard, &LinterOptions{})
	if err != nil {
		t.Fatal(err)
	}
	errs, err := l.Lint("test.yaml", []byte(src), nil)
	if err != nil {
		t.Fatal(err)
	}
	keys, full = []string{}, []string{}
	for _, e := range errs {
		keys = append(keys, fmt.Sprintf("%d:%d [%s]", e.Line, e.Column, e.Kind))
		full = append(full, fmt.Sprintf("%d:%d [%s] %s", e.Line, e.Column, e.Kind, e.Message))
	}
	return
}

// The JSON literal has three keys which are the same name in different letter case. Variant B
// differs from variant A only in the letter case of the third key ("aa" -> "AA"). All three
// spellings stay distinct in both variants, so no key is an exact duplicate of another.
func TestHuntC08N2JSONKeysSameNameThreeSpellings(t *testing.T) {
	a := `on: push
jobs:
  test:
    runs-on: ubuntu-latest
    steps:
      - run: echo ${{ fromJSON('{"Aa":1,"aA":"s","aa":true}').aa.x }}
`
	b := strings.Replace(a, `"aa":true`, `"AA":true`, 1)
	if a == b {
		t.Fatal("test premise is wrong")
	}
	ka, fa := huntC08N2Lint(t, a)
	kb, fb := huntC08N2Lint(t, b)
	if !reflect.DeepEqual(ka, kb) {
		t.Errorf("changing only the letter case of one JSON key changed the reported diagnostics\n--- variant A (%d):\n%s\n--- variant B (%d):\n%s",
			len(fa), strings.Join(fa, "\n"), len(fb), strings.Join(fb, "\n"))
	}
}
