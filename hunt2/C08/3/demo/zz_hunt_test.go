package actionlint

import (
	"fmt"
	"io"
	"reflect"
	"strings"
	"testing"
)

func huntC08N3Lint(t *testing.T, src string) (keys []string, full []string) {
	t.Helper()
	l, err := NewLinter(io.Discard, &LinterOptions{})
	if err != nil {
		t.Fatal(err)
	}
	errs, err := l.Lint("test.yaml", []byte(src), nil)
	if err != nil {
		t.Fatal(err)
	}
	keys, full = []string{}, []string{}
	for _, e := range errs {
		keys = append(keys, fmt.Sprintf("%d:%d [%s]", e.Line, e.Column, e.Kind))
		full = append(full, fmt.Sprintf("%d:%d [%s] %s", e.Line, e.Column, e.Kind, e.Message))
	}
	return
}

// The JSON literal defines the same name twice. In variant A both definitions are spelled "a". In
// variant B the first one is spelled "A". Since names are case-insensitive, both variants define
// the same name twice and must be checked in the same way.
func TestHuntC08N3JSONKeyDefinedTwice(t *testing.T) {
	a := `on: push
jobs:
  test:
    runs-on: ubuntu-latest
    steps:
      - run: echo ${{ fromJSON('{"a":1,"a":{"x":1}}').a.y }}
`
	b := strings.Replace(a, `{"a":1,`, `{"A":1,`, 1)
	if a == b {
		t.Fatal("test premise is wrong")
	}
	ka, fa := huntC08N3Lint(t, a)
	kb, fb := huntC08N3Lint(t, b)
	if !reflect.DeepEqual(ka, kb) {
		t.Errorf("changing only the letter case of one JSON key changed the reported diagnostics\n--- variant A (%d):\n%s\n--- variant B (%d):\n%s",
			len(fa), strings.Join(fa, "\n"), len(fb), strings.Join(fb, "\n"))
	}
}
