package actionlint

import (
	"io"
	"strings"
	"testing"
)

func huntC07N2Lint(t *testing.T, src string) []*Error {
	t.Helper()
	l, err := NewLinter(io.Discard, &LinterOptions{})
	if err != nil {
		t.Fatal(err)
	}
	errs, err := l.Lint("test.yaml", []byte(src), nil)
	if err != nil {
		t.Fatal(err)
	}
	return errs
}

func huntC07N2PosOf(t *testing.T, src, marker string) (int, int) {
	t.Helper()
	i := strings.Index(src, marker)
	if i < 0 {
		t.Fatalf("marker %q not found in source", marker)
	}
	pre := src[:i]
	bol := strings.LastIndex(pre, "\n") + 1
	return strings.Count(pre, "\n") + 1, len([]rune(pre[bol:])) + 1
}

func huntC07N2CheckUndefinedVarAt(t *testing.T, src, name string) {
	t.Helper()
	wantLine, wantCol := huntC07N2PosOf(t, src, name)
	found := false
	for _, e := range huntC07N2Lint(t, src) {
		if !strings.Contains(e.Message, "undefined variable \""+name+"\"") {
			continue
		}
		found = true
		if e.Line != wantLine || e.Column != wantCol {
			t.Errorf("token %q is at %d:%d in the source but the diagnostic was reported at %d:%d: %s\nsource:\n%s", name, wantLine, wantCol, e.Line, e.Column, e.Message, src)
		}
	}
	if !found {
		t.Fatalf("diagnostic for undefined variable %q was not reported\nsource:\n%s", name, src)
	}
}

func huntC07N2Workflow(matrix string) string {
	return "on: push\njobs:\n  test:\n    strategy:\n      matrix:\n" + matrix + "    runs-on: ubuntu-latest\n    steps:\n      - run: echo\n"
}

func TestHuntC07N2SingleQuotedMatrixRowValue(t *testing.T) {
	huntC07N2CheckUndefinedVarAt(t, huntC07N2Workflow("        os: ['${{ zzz }}', x]\n"), "zzz")
}

func TestHuntC07N2DoubleQuotedMatrixRowValueWithTextBefore(t *testing.T) {
	huntC07N2CheckUndefinedVarAt(t, huntC07N2Workflow("        os:\n          - \"prefix ${{ 'a' }} ${{ zzz }}\"\n"), "zzz")
}

func TestHuntC07N2QuotedMatrixIncludeValue(t *testing.T) {
	huntC07N2CheckUndefinedVarAt(t, huntC07N2Workflow("        os: [x]\n        include:\n          - os: x\n            v: '${{ zzz }}'\n"), "zzz")
}

func TestHuntC07N2QuotedMatrixExcludeValue(t *testing.T) {
	huntC07N2CheckUndefinedVarAt(t, huntC07N2Workflow("        os: [x]\n        exclude:\n          - os: \"${{ zzz }}\"\n"), "zzz")
}

func TestHuntC07N2QuotedNestedMatrixValue(t *testing.T) {
	huntC07N2CheckUndefinedVarAt(t, huntC07N2Workflow("        cfg:\n          - {name: '${{ zzz }}'}\n"), "zzz")
}

// The same expression in plain and quoted style: the quote character is one character inserted
// before the expression on its line, so the report must move by exactly 1.
func TestHuntC07N2QuotingMatrixValueShiftsReportByOne(t *testing.T) {
	col := func(src string) int {
		for _, e := range huntC07N2Lint(t, src) {
			if strings.Contains(e.Message, "undefined variable \"zzz\"") {
				return e.Column
			}
		}
		t.Fatalf("no diagnostic for zzz in\n%s", src)
		return 0
	}
	plain := col(huntC07N2Workflow("        os:\n          - ${{ zzz }}\n"))
	quoted := col(huntC07N2Workflow("        os:\n          - '${{ zzz }}'\n"))
	if quoted-plain != 1 {
		t.Errorf("one character (the quote) was inserted before the expression but the report moved by %d (from column %d to column %d)", quoted-plain, plain, quoted)
	}
}
