package actionlint

import (
	"io"
	"strings"
	"testing"
)

func huntC07N1Lint(t *testing.T, src string) []*Error {
	t.Helper()
	l, err := NewLinter(io.Discard, &LinterOptions{})
	if err != nil {
		t.Fatal(err)
	}
	errs, err := l.Lint("test.yaml", []byte(src), nil)
	if err != nil {
		t.Fatal(err)
	}
	return errs
}

// huntC07N1PosOf returns 1-based line and column (in characters) of the first occurrence of marker in src.
func huntC07N1PosOf(t *testing.T, src, marker string) (int, int) {
	t.Helper()
	i := strings.Index(src, marker)
	if i < 0 {
		t.Fatalf("marker %q not found in source", marker)
	}
	pre := src[:i]
	bol := strings.LastIndex(pre, "\n") + 1
	return strings.Count(pre, "\n") + 1, len([]rune(pre[bol:])) + 1
}

// The undefined variable is the only thing wrong in each workflow. The diagnostic about it must be
// reported exactly at the position of the variable token in the source.
func huntC07N1CheckUndefinedVarAt(t *testing.T, src, name string) {
	t.Helper()
	wantLine, wantCol := huntC07N1PosOf(t, src, name)
	found := false
	for _, e := range huntC07N1Lint(t, src) {
		if !strings.Contains(e.Message, "undefined variable \""+name+"\"") {
			continue
		}
		found = true
		if e.Line != wantLine || e.Column != wantCol {
			t.Errorf("token %q is at %d:%d in the source but the diagnostic was reported at %d:%d: %s\nsource:\n%s", name, wantLine, wantCol, e.Line, e.Column, e.Message, src)
		}
	}
	if !found {
		t.Fatalf("diagnostic for undefined variable %q was not reported\nsource:\n%s", name, src)
	}
}

const huntC07N1Head = "on: push\njobs:\n  test:\n    runs-on: ubuntu-latest\n    steps:\n"

func TestHuntC07N1AnchorBeforePlainScalarWithExpression(t *testing.T) {
	huntC07N1CheckUndefinedVarAt(t, huntC07N1Head+"      - run: &x echo ${{ zzz }}\n", "zzz")
}

func TestHuntC07N1AnchorBeforeQuotedScalarWithExpression(t *testing.T) {
	huntC07N1CheckUndefinedVarAt(t, huntC07N1Head+"      - run: &x 'echo ${{ zzz }}'\n", "zzz")
}

func TestHuntC07N1TagBeforeScalarWithExpression(t *testing.T) {
	huntC07N1CheckUndefinedVarAt(t, huntC07N1Head+"      - run: !!str echo ${{ zzz }}\n", "zzz")
}

func TestHuntC07N1TagBeforeNumberExpression(t *testing.T) {
	huntC07N1CheckUndefinedVarAt(t, huntC07N1Head+"      - run: echo\n        timeout-minutes: !!str ${{ zzz }}\n", "zzz")
}

func TestHuntC07N1AnchorBeforeIfConditionWithoutPlaceholder(t *testing.T) {
	huntC07N1CheckUndefinedVarAt(t, huntC07N1Head+"      - run: echo\n        if: &cond true && zzz\n", "zzz")
}

// Shift invariance: "&x " is 3 characters inserted before the expression on its line, so the report
// must move by exactly 3 columns.
func TestHuntC07N1InsertingAnchorShiftsReportByItsLength(t *testing.T) {
	col := func(src string) int {
		for _, e := range huntC07N1Lint(t, src) {
			if strings.Contains(e.Message, "undefined variable \"zzz\"") {
				return e.Column
			}
		}
		t.Fatalf("no diagnostic for zzz in\n%s", src)
		return 0
	}
	before := col(huntC07N1Head + "      - run: echo ${{ zzz }}\n")
	after := col(huntC07N1Head + "      - run: &x echo ${{ zzz }}\n")
	if after-before != 3 {
		t.Errorf("3 characters were inserted before the expression on its line but the report moved by %d (from column %d to column %d)", after-before, before, after)
	}
}
