package actionlint

import (
	"io"
	"strings"
	"testing"
)

func huntC07N3Lint(t *testing.T, src string) []*Error {
	t.Helper()
	l, err := NewLinter(io.Discard, &LinterOptions{})
	if err != nil {
		t.Fatal(err)
	}
	errs, err := l.Lint("test.yaml", []byte(src), nil)
	if err != nil {
		t.Fatal(err)
	}
	return errs
}

func huntC07N3PosOf(t *testing.T, src, marker string) (int, int) {
	t.Helper()
	i := strings.Index(src, marker)
	if i < 0 {
		t.Fatalf("marker %q not found in source", marker)
	}
	pre := src[:i]
	bol := strings.LastIndex(pre, "\n") + 1
	return strings.Count(pre, "\n") + 1, len([]rune(pre[bol:])) + 1
}

// Checks that the diagnostic whose message contains msg is reported at the position of marker.
func huntC07N3CheckAt(t *testing.T, src, msg, marker string) {
	t.Helper()
	wantLine, wantCol := huntC07N3PosOf(t, src, marker)
	found := false
	for _, e := range huntC07N3Lint(t, src) {
		if !strings.Contains(e.Message, msg) {
			continue
		}
		found = true
		if e.Line != wantLine || e.Column != wantCol {
			t.Errorf("%q is at %d:%d in the source but the diagnostic was reported at %d:%d: %s\nsource:\n%s", marker, wantLine, wantCol, e.Line, e.Column, e.Message, src)
		}
	}
	if !found {
		t.Fatalf("diagnostic containing %q was not reported\nsource:\n%s", msg, src)
	}
}

const huntC07N3Jobs = "jobs:\n  test:\n    runs-on: ubuntu-latest\n    steps:\n      - run: echo\n"

// Diagnostic about a mapping key: the key has an anchor before it.
func TestHuntC07N3UnexpectedKeyAfterAnchor(t *testing.T) {
	src := "on: push\n&k zzzkey: 1\n" + huntC07N3Jobs
	huntC07N3CheckAt(t, src, `unexpected key "zzzkey"`, "zzzkey")
}

// Diagnostic about a mapping key: the key has a tag before it.
func TestHuntC07N3UnexpectedKeyAfterTag(t *testing.T) {
	src := "on: push\n!!str zzzkey: 1\n" + huntC07N3Jobs
	huntC07N3CheckAt(t, src, `unexpected key "zzzkey"`, "zzzkey")
}

// Diagnostic about a plain scalar value: the value has an anchor before it.
func TestHuntC07N3InvalidShellNameAfterAnchor(t *testing.T) {
	src := "on: push\n" + huntC07N3Jobs + "        shell: &sh zzzshell\n"
	huntC07N3CheckAt(t, src, `shell name "zzzshell" is invalid`, "zzzshell")
}

// Glob diagnostic: the column of the offending character is computed from the scalar position.
func TestHuntC07N3GlobCharacterAfterAnchor(t *testing.T) {
	src := "on:\n  push:\n    branches:\n      - &b release~1\n" + huntC07N3Jobs
	huntC07N3CheckAt(t, src, "character '~' is invalid", "~")
}

func TestHuntC07N3GlobCharacterInQuotedPatternAfterTag(t *testing.T) {
	src := "on:\n  push:\n    branches:\n      - !!str 'release^1'\n" + huntC07N3Jobs
	huntC07N3CheckAt(t, src, "character '^' is invalid", "^")
}

// Shift invariance for a key: "&k " is 3 characters inserted before the key on its line.
func TestHuntC07N3InsertingAnchorBeforeKeyShiftsReport(t *testing.T) {
	col := func(src string) int {
		for _, e := range huntC07N3Lint(t, src) {
			if strings.Contains(e.Message, `unexpected key "zzzkey"`) {
				return e.Column
			}
		}
		t.Fatalf("no diagnostic for zzzkey in\n%s", src)
		return 0
	}
	before := col("on: push\nzzzkey: 1\n" + huntC07N3Jobs)
	after := col("on: push\n&k zzzkey: 1\n" + huntC07N3Jobs)
	if after-before != 3 {
		t.Errorf("3 characters were inserted before the key on its line but the report moved by %d (from column %d to column %d)", after-before, before, after)
	}
}
