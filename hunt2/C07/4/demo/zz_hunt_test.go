package actionlint

import (
	"io"
	"strings"
	"testing"
)

func huntC07N4Lint(t *testing.T, src string) []*Error {
	t.Helper()
	l, err := NewLinter(io.Discard, &LinterOptions{})
	if err != nil {
		t.Fatal(err)
	}
	errs, err := l.Lint("test.yaml", []byte(src), nil)
	if err != nil {
		t.Fatal(err)
	}
	return errs
}

// Number of lines of a file: number of line terminators, plus one when the last line is not terminated.
func huntC07N4NumLines(src string) int {
	n := strings.Count(src, "\n")
	if !strings.HasSuffix(src, "\n") {
		n++
	}
	return n
}

func huntC07N4CheckLinesInRange(t *testing.T, src string) {
	t.Helper()
	max := huntC07N4NumLines(src)
	errs := huntC07N4Lint(t, src)
	if len(errs) == 0 {
		t.Fatalf("no diagnostic was reported for\n%s", src)
	}
	for _, e := range errs {
		if strings.Contains(e.Message, "could not parse as YAML") {
			t.Fatalf("input must be valid YAML but got: %s", e.Message)
		}
		if e.Line < 1 || e.Line > max || e.Column < 1 {
			t.Errorf("file has %d lines but diagnostic was reported at %d:%d: %s\nsource:\n%s", max, e.Line, e.Column, e.Message, src)
		}
	}
}

// "? shell" is an explicit key without value at the end of the file. The file is valid YAML and has 7 lines.
func TestHuntC07N4ExplicitKeyWithoutValueAtEndOfStep(t *testing.T) {
	src := "on: push\njobs:\n  test:\n    runs-on: ubuntu-latest\n    steps:\n      - run: echo\n        ? shell\n"
	huntC07N4CheckLinesInRange(t, src)
}

func TestHuntC07N4ExplicitKeyWithoutValueAtEndOfJob(t *testing.T) {
	src := "on: push\njobs:\n  test:\n    runs-on: ubuntu-latest\n    ? steps\n"
	huntC07N4CheckLinesInRange(t, src)
}

func TestHuntC07N4ExplicitKeyWithoutValueAtEndOfWorkflow(t *testing.T) {
	src := "on: push\n? jobs\n"
	huntC07N4CheckLinesInRange(t, src)
}
