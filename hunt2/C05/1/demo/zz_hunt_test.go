package actionlint

import (
	"io"
	"strings"
	"testing"
)

func huntC05N1Lint(t *testing.T, src string) []*Error {
	t.Helper()
	l, err := NewLinter(io.Discard, &LinterOptions{})
	if err != nil {
		t.Fatal(err)
	}
	errs, err := l.Lint("test.yaml", []byte(src), nil)
	if err != nil {
		t.Fatal(err)
	}
	return errs
}

func huntC05N1Reported(errs []*Error, name string) bool {
	for _, e := range errs {
		if strings.Contains(e.Message, "property \""+name+"\" is not defined in object type") {
			return true
		}
	}
	return false
}

func huntC05N1Dump(t *testing.T, errs []*Error) {
	t.Helper()
	for _, e := range errs {
		t.Logf("  %d:%d: %s [%s]", e.Line, e.Column, e.Message, e.Kind)
	}
}

// Two undefined step ids are referenced from one "run" script (two ${{ }} placeholders in one
// scalar). Neither step exists in the job, so both references are out of scope and both must be
// reported as undefined.
func TestHuntC05N1TwoUndefinedStepsInOneRunScript(t *testing.T) {
	src := `on: push
jobs:
  build:
    runs-on: ubuntu-latest
    steps:
      - run: |
          echo "${{ steps.nope1.outputs.x }}"
          echo "${{ steps.nope2.outputs.x }}"
`
	errs := huntC05N1Lint(t, src)
	huntC05N1Dump(t, errs)
	if !huntC05N1Reported(errs, "nope1") {
		t.Errorf("steps.nope1 is not in scope but was not reported as undefined")
	}
	if !huntC05N1Reported(errs, "nope2") {
		t.Errorf("steps.nope2 is not in scope but was not reported as undefined")
	}
}

// Same with different contexts on a single line: matrix.u (no such row), needs.ghost (job is not
// needed) and steps.s (no such step) are all out of scope in the "with" value of a reusable
// workflow call. Only the first one is reported.
func TestHuntC05N1UndefinedMatrixNeedsInOneValue(t *testing.T) {
	src := `on: push
jobs:
  a:
    runs-on: ubuntu-latest
    steps:
      - run: echo
  c:
    needs: a
    strategy:
      matrix:
        t: [x, y]
    uses: owner/repo/.github/workflows/x.yml@v1
    with:
      w: ${{ matrix.t }}-${{ matrix.u }}-${{ needs.ghost.result }}
`
	errs := huntC05N1Lint(t, src)
	huntC05N1Dump(t, errs)
	if !huntC05N1Reported(errs, "u") {
		t.Errorf("matrix.u is not a row/include key but was not reported as undefined")
	}
	if !huntC05N1Reported(errs, "ghost") {
		t.Errorf("needs.ghost is not a directly needed job but was not reported as undefined")
	}
}

// Control: the same two references are both reported when they are put in two different scalars, so
// the missing diagnostic above is not a matter of scope.
func TestHuntC05N1ControlSeparateScalars(t *testing.T) {
	src := `on: push
jobs:
  build:
    runs-on: ubuntu-latest
    steps:
      - run: echo "${{ steps.nope1.outputs.x }}"
      - run: echo "${{ steps.nope2.outputs.x }}"
`
	errs := huntC05N1Lint(t, src)
	if !huntC05N1Reported(errs, "nope1") || !huntC05N1Reported(errs, "nope2") {
		huntC05N1Dump(t, errs)
		t.Errorf("both references should be reported in separate scalars")
	}
}
