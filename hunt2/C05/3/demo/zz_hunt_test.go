package actionlint

import (
	"io"
	"sort"
	"strings"
	"testing"
)

func huntC05N3Lint(t *testing.T, src string) []*Error {
	t.Helper()
	l, err := NewLinter(io.Discard, &LinterOptions{})
	if err != nil {
		t.Fatal(err)
	}
	errs, err := l.Lint("test.yaml", []byte(src), nil)
	if err != nil {
		t.Fatal(err)
	}
	return errs
}

func huntC05N3Undefined(errs []*Error) []string {
	ret := []string{}
	for _, e := range errs {
		if strings.Contains(e.Message, "is not defined in object type") {
			ret = append(ret, e.Message)
		}
	}
	sort.Strings(ret)
	return ret
}

const huntC05N3CallEvent = `  workflow_call:
    inputs:
      a:
        type: string
        default: ${{ inputs.d }}
`

const huntC05N3DispatchEvent = `  workflow_dispatch:
    inputs:
      d:
        type: string
`

const huntC05N3Jobs = `jobs:
  j:
    runs-on: ubuntu-latest
    steps:
      - run: echo ${{ inputs.a }} ${{ inputs.d }}
`

// The workflow has both workflow_call and workflow_dispatch triggers. "inputs" is the merged set
// of names declared by both events, so inputs.d (declared by workflow_dispatch) is a declared name.
// It must not be reported as undefined at on.workflow_call.inputs.a.default.
func TestHuntC05N3DispatchInputReferencedFromCallInputDefault(t *testing.T) {
	src := "on:\n" + huntC05N3CallEvent + huntC05N3DispatchEvent + huntC05N3Jobs
	errs := huntC05N3Lint(t, src)
	if u := huntC05N3Undefined(errs); len(u) > 0 {
		t.Errorf("inputs.d is declared by workflow_dispatch but was reported as undefined: %v", u)
	}
}

// The scope of "inputs" must not depend on the order of the keys of the "on" mapping: the two
// orders declare exactly the same names.
func TestHuntC05N3OrderOfEventsDoesNotMatter(t *testing.T) {
	callFirst := "on:\n" + huntC05N3CallEvent + huntC05N3DispatchEvent + huntC05N3Jobs
	dispatchFirst := "on:\n" + huntC05N3DispatchEvent + huntC05N3CallEvent + huntC05N3Jobs
	u1 := huntC05N3Undefined(huntC05N3Lint(t, callFirst))
	u2 := huntC05N3Undefined(huntC05N3Lint(t, dispatchFirst))
	if strings.Join(u1, "\n") != strings.Join(u2, "\n") {
		t.Errorf("undefined-property diagnostics differ by order of events in \"on\":\nworkflow_call first: %v\nworkflow_dispatch first: %v", u1, u2)
	}
}
