package actionlint

import (
	"io"
	"strings"
	"testing"
)

func huntC05N4Lint(t *testing.T, src string) []*Error {
	t.Helper()
	l, err := NewLinter(io.Discard, &LinterOptions{})
	if err != nil {
		t.Fatal(err)
	}
	errs, err := l.Lint("test.yaml", []byte(src), nil)
	if err != nil {
		t.Fatal(err)
	}
	return errs
}

// Job "build" exists in the reusable workflow, so jobs.build is in scope at
// on.workflow_call.outputs.<output_id>.value. The jobs context has
// jobs.<job_id>.result and jobs.<job_id>.outputs.<name>
// (https://docs.github.com/en/actions/learn-github-actions/contexts#jobs-context). Neither
// reference below refers to an entity which is out of scope, so no "is not defined" diagnostic is
// expected.
func TestHuntC05N4JobsResultOfExistingJob(t *testing.T) {
	src := `on:
  workflow_call:
    outputs:
      built:
        value: ${{ jobs.build.outputs.artifact }}
      status:
        value: ${{ jobs.build.result }}
jobs:
  build:
    runs-on: ubuntu-latest
    outputs:
      artifact: foo
    steps:
      - run: echo
`
	errs := huntC05N4Lint(t, src)
	for _, e := range errs {
		if strings.Contains(e.Message, "is not defined in object type") {
			t.Errorf("reference to existing job was reported as undefined: %s", e.Error())
		}
	}
}

// Control: a job which does not exist is reported.
func TestHuntC05N4ControlUnknownJob(t *testing.T) {
	src := `on:
  workflow_call:
    outputs:
      status:
        value: ${{ jobs.nope.outputs.x }}
jobs:
  build:
    runs-on: ubuntu-latest
    steps:
      - run: echo
`
	errs := huntC05N4Lint(t, src)
	found := false
	for _, e := range errs {
		if strings.Contains(e.Message, "property \"nope\" is not defined in object type") {
			found = true
		}
	}
	if !found {
		t.Errorf("jobs.nope should be reported as undefined: %v", errs)
	}
}
