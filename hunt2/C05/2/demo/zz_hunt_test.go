package actionlint

import (
	"io"
	"strings"
	"testing"
)

func huntC05N2Lint(t *testing.T, src string) []*Error {
	t.Helper()
	l, err := NewLinter(io.Discard, &LinterOptions{})
	if err != nil {
		t.Fatal(err)
	}
	errs, err := l.Lint("test.yaml", []byte(src), nil)
	if err != nil {
		t.Fatal(err)
	}
	return errs
}

func huntC05N2Undefined(errs []*Error) []string {
	var ret []string
	for _, e := range errs {
		if strings.Contains(e.Message, "is not defined in object type") {
			ret = append(ret, e.Error())
		}
	}
	return ret
}

// Input "b" is declared in on.workflow_call.inputs. The default value of input "a" refers to
// inputs.b ("inputs" context is available at on.workflow_call.inputs.<inputs_id>.default). "b" is
// a declared name, so the reference must not be reported as undefined, wherever "b" is placed in
// the inputs mapping.
func TestHuntC05N2ForwardReferenceToDeclaredCallInput(t *testing.T) {
	src := `on:
  workflow_call:
    inputs:
      a:
        type: string
        default: ${{ inputs.b }}
      b:
        type: string
        default: x
jobs:
  j:
    runs-on: ubuntu-latest
    steps:
      - run: echo ${{ inputs.a }} ${{ inputs.b }}
`
	errs := huntC05N2Lint(t, src)
	if u := huntC05N2Undefined(errs); len(u) > 0 {
		t.Errorf("inputs.b is a declared workflow_call input but was reported as undefined: %v", u)
	}
}

// Control: the same workflow with the two inputs declared in the other order is accepted, so the
// result depends only on the order of keys in the inputs mapping.
func TestHuntC05N2ControlBackwardReference(t *testing.T) {
	src := `on:
  workflow_call:
    inputs:
      b:
        type: string
        default: x
      a:
        type: string
        default: ${{ inputs.b }}
jobs:
  j:
    runs-on: ubuntu-latest
    steps:
      - run: echo ${{ inputs.a }} ${{ inputs.b }}
`
	errs := huntC05N2Lint(t, src)
	if u := huntC05N2Undefined(errs); len(u) > 0 {
		t.Errorf("unexpected undefined property errors: %v", u)
	}
}
