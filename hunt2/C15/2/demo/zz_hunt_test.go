package actionlint

import (
	"bytes"
	"os"
	"path/filepath"
	"strings"
	"testing"
)

const huntC15N2WF = `on: push
jobs:
  test:
    runs-on: ubuntu-latest
    steps:
      - run: echo ${{ unknown_ctx }}
      - run: echo ${{ github.foo_bar }}
`

func huntC15N2Write(t *testing.T, path, content string) {
	t.Helper()
	if err := os.MkdirAll(filepath.Dir(path), 0o755); err != nil {
		t.Fatal(err)
	}
	if err := os.WriteFile(path, []byte(content), 0o644); err != nil {
		t.Fatal(err)
	}
}

// huntC15N2Repo creates a Git repository layout (.git directory and .github/workflows directory) at root.
func huntC15N2Repo(t *testing.T, root, cfg string, files map[string]string) {
	t.Helper()
	for _, d := range []string{".git", filepath.Join(".github", "workflows")} {
		if err := os.MkdirAll(filepath.Join(root, d), 0o755); err != nil {
			t.Fatal(err)
		}
	}
	if cfg != "" {
		huntC15N2Write(t, filepath.Join(root, ".github", "actionlint.yaml"), cfg)
	}
	for p, c := range files {
		huntC15N2Write(t, filepath.Join(root, p), c)
	}
}

// huntC15N2Run runs the actionlint command in the working directory cwd. It returns the lines of the
// remaining diagnostics of x.yml ("6" is the undefined variable error, "7" is the undefined property error),
// stderr and the exit status.
func huntC15N2Run(t *testing.T, cwd string, stdin string, args ...string) (string, string, int) {
	t.Helper()
	old, err := os.Getwd()
	if err != nil {
		t.Fatal(err)
	}
	if err := os.Chdir(cwd); err != nil {
		t.Fatal(err)
	}
	defer os.Chdir(old)
	var out, errb bytes.Buffer
	cmd := Command{Stdin: strings.NewReader(stdin), Stdout: &out, Stderr: &errb}
	a := append([]string{"actionlint", "-shellcheck=", "-pyflakes=", "-no-color", "-format", "{{range $ := .}}{{$.Filepath}}:{{$.Line}}\n{{end}}"}, args...)
	st := cmd.Main(a)
	// Only look at diagnostics for x.yml. When linting the outer repository, the configuration file of the
	// nested repository is also found under .github/workflows and linted as workflow.
	lines := ""
	for _, l := range strings.Split(out.String(), "\n") {
		if i := strings.LastIndex(l, "x.yml:"); i >= 0 {
			lines += l[i+len("x.yml:"):] + ","
		}
	}
	return lines, errb.String(), st
}

func huntC15N2Tmp(t *testing.T) string {
	t.Helper()
	r, err := filepath.EvalSymlinks(t.TempDir())
	if err != nil {
		t.Fatal(err)
	}
	return r
}

// Property C15: a "paths" entry applies to a file iff its glob matches the file's path relative to the root
// of the repository containing it. A repository nested under .github/workflows of another repository (vendored
// checkout, submodule) contains its own workflow file; linting that file by path uses the nested repository
// (nearest root) but linting the outer repository with no argument applies the outer repository's
// configuration to it.
func TestHuntC15N2NestedRepositoryUnderWorkflowsDir(t *testing.T) {
	d := huntC15N2Tmp(t)
	outerCfg := "paths:\n  '**/*.yml':\n    ignore:\n      - undefined variable\n"
	innerCfg := "paths:\n  '.github/workflows/*.yml':\n    ignore:\n      - property \"foo_bar\" is not defined\n"
	huntC15N2Repo(t, d, outerCfg, map[string]string{".github/workflows/ok.yml": "on: push\njobs:\n  j:\n    runs-on: ubuntu-latest\n    steps:\n      - run: echo\n"})
	inner := filepath.Join(d, ".github", "workflows", "vendor")
	huntC15N2Repo(t, inner, innerCfg, map[string]string{".github/workflows/x.yml": huntC15N2WF})

	// The repository containing x.yml is the nested one: only its configuration applies so the undefined
	// variable error at line 6 remains and the undefined property error at line 7 is filtered
	want := "6,"

	byPath, stderr, st1 := huntC15N2Run(t, d, "", ".github/workflows/vendor/.github/workflows/x.yml")
	if stderr != "" {
		t.Fatalf("unexpected stderr: %q", stderr)
	}
	if byPath != want || st1 != 1 {
		t.Errorf("linting x.yml by path: wanted lines %q but got %q (status %d)", want, byPath, st1)
	}

	byRepo, stderr, st2 := huntC15N2Run(t, d, "")
	if stderr != "" {
		t.Fatalf("unexpected stderr: %q", stderr)
	}
	if byRepo != want || st2 != 1 {
		t.Errorf("linting the outer repository with no argument: wanted lines %q for x.yml (same as linting it by path: %q) but got %q (status %d)", want, byPath, byRepo, st2)
	}
}
