package actionlint

import (
	"bytes"
	"os"
	"path/filepath"
	"strings"
	"testing"
)

const huntC15N3WF = `on: push
jobs:
  test:
    runs-on: ubuntu-latest
    steps:
      - run: echo ${{ unknown_ctx }}
      - run: echo ${{ github.foo_bar }}
`

func huntC15N3Write(t *testing.T, path, content string) {
	t.Helper()
	if err := os.MkdirAll(filepath.Dir(path), 0o755); err != nil {
		t.Fatal(err)
	}
	if err := os.WriteFile(path, []byte(content), 0o644); err != nil {
		t.Fatal(err)
	}
}

// huntC15N3Repo creates a Git repository layout (.git directory and .github/workflows directory) at root.
func huntC15N3Repo(t *testing.T, root, cfg string, files map[string]string) {
	t.Helper()
	for _, d := range []string{".git", filepath.Join(".github", "workflows")} {
		if err := os.MkdirAll(filepath.Join(root, d), 0o755); err != nil {
			t.Fatal(err)
		}
	}
	if cfg != "" {
		huntC15N3Write(t, filepath.Join(root, ".github", "actionlint.yaml"), cfg)
	}
	for p, c := range files {
		huntC15N3Write(t, filepath.Join(root, p), c)
	}
}

// huntC15N3Run runs the actionlint command in the working directory cwd. It returns the lines of the
// remaining diagnostics ("6" is the undefined variable error, "7" is the undefined property error),
// stderr and the exit status.
func huntC15N3Run(t *testing.T, cwd string, stdin string, args ...string) (string, string, int) {
	t.Helper()
	old, err := os.Getwd()
	if err != nil {
		t.Fatal(err)
	}
	if err := os.Chdir(cwd); err != nil {
		t.Fatal(err)
	}
	defer os.Chdir(old)
	var out, errb bytes.Buffer
	cmd := Command{Stdin: strings.NewReader(stdin), Stdout: &out, Stderr: &errb}
	a := append([]string{"actionlint", "-shellcheck=", "-pyflakes=", "-no-color", "-format", "{{range $ := .}}{{$.Line}},{{end}}"}, args...)
	st := cmd.Main(a)
	return out.String(), errb.String(), st
}

func huntC15N3Tmp(t *testing.T) string {
	t.Helper()
	r, err := filepath.EvalSymlinks(t.TempDir())
	if err != nil {
		t.Fatal(err)
	}
	return r
}

const huntC15N3Cfg = "paths:\n  .github/workflows/*.yml:\n    ignore:\n      - undefined variable\n      - property \"foo_bar\" is not defined\n"

// Property C15: whether a "paths" entry applies must not depend on how the path of the file is spelled on
// the command line. Here the same workflow file of the same repository is named once directly and once
// through a symbolic link to the workflows directory.
func TestHuntC15N3PathSpelledThroughSymlink(t *testing.T) {
	d := huntC15N3Tmp(t)
	repo := filepath.Join(d, "repo")
	huntC15N3Repo(t, repo, huntC15N3Cfg, map[string]string{".github/workflows/a.yml": huntC15N3WF})
	if err := os.Symlink(filepath.Join(repo, ".github", "workflows"), filepath.Join(d, "wf")); err != nil {
		t.Skip("symlink is not available:", err)
	}

	direct, stderr, st1 := huntC15N3Run(t, d, "", "repo/.github/workflows/a.yml")
	if stderr != "" || direct != "" || st1 != 0 {
		t.Fatalf("all diagnostics must be filtered by the configuration: lines=%q status=%d stderr=%q", direct, st1, stderr)
	}
	linked, stderr, st2 := huntC15N3Run(t, d, "", "wf/a.yml")
	if linked != direct || st2 != st1 {
		t.Errorf("same file spelled as wf/a.yml (wf -> repo/.github/workflows): wanted lines %q status %d but got lines %q status %d stderr=%q", direct, st1, linked, st2, stderr)
	}
}

// The same with the working directory: a shell which entered the workflows directory through a symbolic
// link exports the logical path in $PWD. The process is in the same directory of the same repository in both
// runs, only the name of the working directory differs.
func TestHuntC15N3WorkingDirEnteredThroughSymlink(t *testing.T) {
	d := huntC15N3Tmp(t)
	repo := filepath.Join(d, "repo")
	huntC15N3Repo(t, repo, huntC15N3Cfg, map[string]string{".github/workflows/a.yml": huntC15N3WF})
	link := filepath.Join(d, "wf")
	if err := os.Symlink(filepath.Join(repo, ".github", "workflows"), link); err != nil {
		t.Skip("symlink is not available:", err)
	}

	t.Setenv("PWD", filepath.Join(repo, ".github", "workflows"))
	physFile, stderr, st1 := huntC15N3Run(t, link, "", "a.yml")
	if stderr != "" || physFile != "" || st1 != 0 {
		t.Fatalf("all diagnostics must be filtered by the configuration: lines=%q status=%d stderr=%q", physFile, st1, stderr)
	}
	physRepo, stderr, st2 := huntC15N3Run(t, link, "")
	if stderr != "" || physRepo != "" || st2 != 0 {
		t.Fatalf("all diagnostics must be filtered by the configuration: lines=%q status=%d stderr=%q", physRepo, st2, stderr)
	}

	t.Setenv("PWD", link) // What `cd wf` in a shell does
	logFile, stderr, st3 := huntC15N3Run(t, link, "", "a.yml")
	if logFile != physFile || st3 != st1 {
		t.Errorf("`actionlint a.yml` with PWD=%s: wanted lines %q status %d but got lines %q status %d stderr=%q", link, physFile, st1, logFile, st3, stderr)
	}
	logRepo, stderr, st4 := huntC15N3Run(t, link, "")
	if logRepo != physRepo || st4 != st2 {
		t.Errorf("`actionlint` with PWD=%s: wanted lines %q status %d but got lines %q status %d stderr=%q", link, physRepo, st2, logRepo, st4, stderr)
	}
}
