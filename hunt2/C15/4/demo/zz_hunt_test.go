package actionlint

import (
	"bytes"
	"os"
	"path/filepath"
	"strings"
	"testing"
)

const huntC15N4WF = `on: push
jobs:
  test:
    runs-on: ubuntu-latest
    steps:
      - run: echo ${{ unknown_ctx }}
      - run: echo ${{ github.foo_bar }}
`

func huntC15N4Write(t *testing.T, path, content string) {
	t.Helper()
	if err := os.MkdirAll(filepath.Dir(path), 0o755); err != nil {
		t.Fatal(err)
	}
	if err := os.WriteFile(path, []byte(content), 0o644); err != nil {
		t.Fatal(err)
	}
}

// huntC15N4Repo creates a Git repository layout (.git directory and .github/workflows directory) at root.
func huntC15N4Repo(t *testing.T, root, cfg string, files map[string]string) {
	t.Helper()
	for _, d := range []string{".git", filepath.Join(".github", "workflows")} {
		if err := os.MkdirAll(filepath.Join(root, d), 0o755); err != nil {
			t.Fatal(err)
		}
	}
	if cfg != "" {
		huntC15N4Write(t, filepath.Join(root, ".github", "actionlint.yaml"), cfg)
	}
	for p, c := range files {
		huntC15N4Write(t, filepath.Join(root, p), c)
	}
}

// huntC15N4Run runs the actionlint command in the working directory cwd. It returns the lines of the
// remaining diagnostics ("6" is the undefined variable error, "7" is the undefined property error),
// stderr and the exit status.
func huntC15N4Run(t *testing.T, cwd string, stdin string, args ...string) (string, string, int) {
	t.Helper()
	old, err := os.Getwd()
	if err != nil {
		t.Fatal(err)
	}
	if err := os.Chdir(cwd); err != nil {
		t.Fatal(err)
	}
	defer os.Chdir(old)
	var out, errb bytes.Buffer
	cmd := Command{Stdin: strings.NewReader(stdin), Stdout: &out, Stderr: &errb}
	a := append([]string{"actionlint", "-shellcheck=", "-pyflakes=", "-no-color", "-format", "{{range $ := .}}{{$.Line}},{{end}}"}, args...)
	st := cmd.Main(a)
	return out.String(), errb.String(), st
}

func huntC15N4Tmp(t *testing.T) string {
	t.Helper()
	r, err := filepath.EvalSymlinks(t.TempDir())
	if err != nil {
		t.Fatal(err)
	}
	return r
}

// Property C15: a "paths" entry applies to a file iff its glob matches the file's path relative to the root of
// the repository containing it. An editor checks a buffer with `actionlint -stdin-filename <path> -`. For a
// buffer which is not saved yet the path is inside the repository and matches the glob, but the per-path
// configuration of the repository is not applied.
func TestHuntC15N4StdinFilenameOfUnsavedFile(t *testing.T) {
	d := huntC15N4Tmp(t)
	cfg := "paths:\n  .github/workflows/*.yml:\n    ignore:\n      - undefined variable\n      - property \"foo_bar\" is not defined\n"
	huntC15N4Repo(t, d, cfg, map[string]string{".github/workflows/saved.yml": huntC15N4WF})

	saved, stderr, st1 := huntC15N4Run(t, d, huntC15N4WF, "-stdin-filename", ".github/workflows/saved.yml", "-")
	if stderr != "" || saved != "" || st1 != 0 {
		t.Fatalf("all diagnostics must be filtered for the saved file: lines=%q status=%d stderr=%q", saved, st1, stderr)
	}

	for _, name := range []string{
		".github/workflows/unsaved.yml",
		"./.github/workflows/unsaved.yml",
		filepath.Join(d, ".github", "workflows", "unsaved.yml"),
	} {
		unsaved, stderr, st2 := huntC15N4Run(t, d, huntC15N4WF, "-stdin-filename", name, "-")
		if unsaved != saved || st2 != st1 {
			t.Errorf("-stdin-filename %s: glob .github/workflows/*.yml matches the path relative to the repository root so all diagnostics must be filtered (lines %q status %d) but got lines %q status %d stderr=%q", name, saved, st1, unsaved, st2, stderr)
		}
	}
}
