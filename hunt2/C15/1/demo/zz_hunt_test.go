package actionlint

import (
	"bytes"
	"os"
	"path/filepath"
	"strings"
	"testing"
)

const huntC15N1WF = `on: push
jobs:
  test:
    runs-on: ubuntu-latest
    steps:
      - run: echo ${{ unknown_ctx }}
      - run: echo ${{ github.foo_bar }}
`

func huntC15N1Write(t *testing.T, path, content string) {
	t.Helper()
	if err := os.MkdirAll(filepath.Dir(path), 0o755); err != nil {
		t.Fatal(err)
	}
	if err := os.WriteFile(path, []byte(content), 0o644); err != nil {
		t.Fatal(err)
	}
}

// huntC15N1Repo creates a Git repository layout (.git directory and .github/workflows directory) at root.
func huntC15N1Repo(t *testing.T, root, cfg string, files map[string]string) {
	t.Helper()
	for _, d := range []string{".git", filepath.Join(".github", "workflows")} {
		if err := os.MkdirAll(filepath.Join(root, d), 0o755); err != nil {
			t.Fatal(err)
		}
	}
	if cfg != "" {
		huntC15N1Write(t, filepath.Join(root, ".github", "actionlint.yaml"), cfg)
	}
	for p, c := range files {
		huntC15N1Write(t, filepath.Join(root, p), c)
	}
}

// huntC15N1Run runs the actionlint command in the working directory cwd. It returns the lines of the
// remaining diagnostics ("6" is the undefined variable error, "7" is the undefined property error),
// stderr and the exit status.
func huntC15N1Run(t *testing.T, cwd string, stdin string, args ...string) (string, string, int) {
	t.Helper()
	old, err := os.Getwd()
	if err != nil {
		t.Fatal(err)
	}
	if err := os.Chdir(cwd); err != nil {
		t.Fatal(err)
	}
	defer os.Chdir(old)
	var out, errb bytes.Buffer
	cmd := Command{Stdin: strings.NewReader(stdin), Stdout: &out, Stderr: &errb}
	a := append([]string{"actionlint", "-shellcheck=", "-pyflakes=", "-no-color", "-format", "{{range $ := .}}{{$.Line}},{{end}}"}, args...)
	st := cmd.Main(a)
	return out.String(), errb.String(), st
}

func huntC15N1Tmp(t *testing.T) string {
	t.Helper()
	r, err := filepath.EvalSymlinks(t.TempDir())
	if err != nil {
		t.Fatal(err)
	}
	return r
}

// Property C15: whether a "paths" entry of the configuration applies to a file must not depend on the
// current working directory nor on how the path is spelled on the command line (relative, absolute,
// with ./). Here the checked directory has .github/workflows and .github/actionlint.yaml but no .git
// directory (source tarball, Docker build context) and the configuration is given with -config-file.
func TestHuntC15N1SpellingAndCwdWithoutGitDir(t *testing.T) {
	d := huntC15N1Tmp(t)
	cfg := filepath.Join(d, ".github", "actionlint.yaml")
	huntC15N1Write(t, cfg, "paths:\n  .github/workflows/*.yml:\n    ignore:\n      - undefined variable\n")
	huntC15N1Write(t, filepath.Join(d, ".github", "workflows", "a.yml"), huntC15N1WF)
	abs := filepath.Join(d, ".github", "workflows", "a.yml")

	cases := []struct {
		cwd  string
		path string
	}{
		{d, ".github/workflows/a.yml"},
		{d, "./.github/workflows/a.yml"},
		{d, abs},
		{filepath.Join(d, ".github"), "workflows/a.yml"},
		{filepath.Join(d, ".github"), abs},
		{filepath.Join(d, ".github", "workflows"), "a.yml"},
	}

	var firstOut string
	var firstStatus int
	for i, c := range cases {
		out, stderr, status := huntC15N1Run(t, c.cwd, "", "-config-file", cfg, c.path)
		if stderr != "" || (status != 0 && status != 1) {
			t.Fatalf("cwd=%q path=%q: unexpected failure: status=%d stderr=%q", c.cwd, c.path, status, stderr)
		}
		t.Logf("cwd=%q path=%q: remaining diagnostics at lines %q, status=%d", c.cwd, c.path, out, status)
		if i == 0 {
			firstOut, firstStatus = out, status
			continue
		}
		if out != firstOut || status != firstStatus {
			t.Errorf("result depends on cwd/spelling: cwd=%q path=%q gives lines %q (status %d) but cwd=%q path=%q gives lines %q (status %d)",
				cases[0].cwd, cases[0].path, firstOut, firstStatus, c.cwd, c.path, out, status)
		}
	}
}
