package actionlint

import (
	"io"
	"strings"
	"testing"
)

// Property C17: "A branches/tags/paths filter is reported iff it violates GitHub's filter-pattern
// syntax ... or, for branch and tag filters, the Git ref-name character rules."
//
// git-check-ref-format: "They cannot have ASCII control characters (i.e. bytes whose values are
// lower than \040, or \177 DEL), space, tilde ~, caret ^, or colon : anywhere", "They cannot have
// question-mark ?, asterisk *, or open bracket [ anywhere", "They cannot contain a \".
//
// The validator reports a literal (escaped) `[`, `?`, `*` in a ref filter because no ref name can
// contain it, and it reports a lone `\` ("character '\' is invalid for branch and tag names").
// But the escaped backslash `\\`, which stands for a literal backslash, is accepted, and so are
// all ASCII control characters other than TAB, CR, LF and NUL.

func TestHuntC17N4EscapedBackslashInRefFilter(t *testing.T) {
	// controls: other escaped ref-forbidden characters are reported, and so is an unescaped backslash
	for _, pat := range []string{`release\[x`, `release\?x`, `release\*x`, `release\x`} {
		if errs := ValidateRefGlob(pat); len(errs) == 0 {
			t.Fatalf("control %q is not reported", pat)
		}
	}
	for _, pat := range []string{`release\\x`, `\\`, `a/\\/b`} {
		if errs := ValidateRefGlob(pat); len(errs) == 0 {
			t.Errorf("ref filter %q only matches ref names containing a backslash, which is forbidden in ref names, but nothing is reported", pat)
		}
	}
}

func TestHuntC17N4ControlCharacterInRefFilter(t *testing.T) {
	// controls: these whitespace/control characters are reported
	for _, pat := range []string{"a\tb", "a b", "a\rb", "a\nb"} {
		if errs := ValidateRefGlob(pat); len(errs) == 0 {
			t.Fatalf("control %q is not reported", pat)
		}
	}
	for _, pat := range []string{"a\x7fb", "a\x01b", "a\x1bb", "a\x0bb", "a\x0cb"} {
		if errs := ValidateRefGlob(pat); len(errs) == 0 {
			t.Errorf("ref filter %q contains an ASCII control character, which is forbidden in ref names, but nothing is reported", pat)
		}
	}
}

// The same through the linter.
func TestHuntC17N4InWorkflow(t *testing.T) {
	src := "on:\n  push:\n    branches:\n      - 'release\\\\x'\n    tags:\n      - \"v1\\x7F\"\njobs:\n  a:\n    runs-on: ubuntu-latest\n    steps:\n      - run: echo\n"
	l, err := NewLinter(io.Discard, &LinterOptions{})
	if err != nil {
		t.Fatal(err)
	}
	errs, err := l.Lint("test.yaml", []byte(src), nil)
	if err != nil {
		t.Fatal(err)
	}
	lines := map[int]bool{}
	for _, e := range errs {
		if e.Kind == "glob" {
			lines[e.Line] = true
		}
	}
	if !lines[4] {
		t.Errorf("no glob diagnostic for the branches filter %s (literal backslash)", strings.Split(src, "\n")[3])
	}
	if !lines[6] {
		t.Errorf("no glob diagnostic for the tags filter %s (DEL character)", strings.Split(src, "\n")[5])
	}
}
