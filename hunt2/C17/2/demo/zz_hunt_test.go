package actionlint

import (
	"io"
	"strings"
	"testing"
	"unicode/utf8"
)

// Property C17: "each report's column lies inside the pattern at the offending character
// (which is the character the message names, when it names one)".
//
// A NUL character (and an invalid UTF-8 byte) in a pattern is reported through the
// text/scanner error callback with the message "... invalid character NUL". The report's column
// is the column of the character BEFORE the NUL, and 0 (outside of the pattern, where columns are
// 1-based) when the NUL is the first character.

func huntC17N2Check(t *testing.T, kind string, errs []InvalidGlobPattern, pat string, what string, wantCol int) {
	t.Helper()
	found := false
	for _, e := range errs {
		if !strings.Contains(e.Message, what) {
			continue
		}
		found = true
		n := utf8.RuneCountInString(pat)
		if e.Column < 1 || e.Column > n {
			t.Errorf("%s %q: report %q has column %d which is not inside the pattern (1..%d)", kind, pat, e.Message, e.Column, n)
		} else if e.Column != wantCol {
			t.Errorf("%s %q: report %q has column %d (character %q) but the offending character is at column %d", kind, pat, e.Message, e.Column, []rune(pat)[e.Column-1], wantCol)
		}
	}
	if !found {
		t.Fatalf("%s %q: no report containing %q: %v", kind, pat, what, errs)
	}
}

func TestHuntC17N2NulColumn(t *testing.T) {
	for _, tc := range []struct {
		pat string
		col int
	}{
		{"ab\x00c", 3},
		{"a\x00", 2},
		{"\x00", 1},
		{"\x00abc", 1},
		{"feature/\x00", 9},
	} {
		huntC17N2Check(t, "path", ValidatePathGlob(tc.pat), tc.pat, "invalid character NUL", tc.col)
		huntC17N2Check(t, "ref", ValidateRefGlob(tc.pat), tc.pat, "invalid character NUL", tc.col)
	}
}

func TestHuntC17N2InvalidUTF8Column(t *testing.T) {
	for _, tc := range []struct {
		pat string
		col int
	}{
		{"ab\xffc", 3},
		{"\xff", 1},
	} {
		huntC17N2Check(t, "path", ValidatePathGlob(tc.pat), tc.pat, "invalid UTF-8 encoding", tc.col)
		huntC17N2Check(t, "ref", ValidateRefGlob(tc.pat), tc.pat, "invalid UTF-8 encoding", tc.col)
	}
}

// The same through the linter: "abc\0" in a double-quoted scalar is the pattern "abc\x00". The
// diagnostic must be at the escape sequence \0 (column 13 of line 4), not at 'c' (column 12).
func TestHuntC17N2NulColumnInWorkflow(t *testing.T) {
	src := "on:\n  push:\n    paths:\n      - \"abc\\0\"\njobs:\n  a:\n    runs-on: ubuntu-latest\n    steps:\n      - run: echo\n"
	l, err := NewLinter(io.Discard, &LinterOptions{})
	if err != nil {
		t.Fatal(err)
	}
	errs, err := l.Lint("test.yaml", []byte(src), nil)
	if err != nil {
		t.Fatal(err)
	}
	if len(errs) != 1 || errs[0].Kind != "glob" || !strings.Contains(errs[0].Message, "invalid character NUL") {
		t.Fatalf("wanted one glob error about NUL: %v", errs)
	}
	line := strings.Split(src, "\n")[errs[0].Line-1]
	want := strings.Index(line, "\\0") + 1
	if errs[0].Column != want {
		t.Fatalf("NUL diagnostic is at %d:%d (%q) but the NUL is written at column %d of %q", errs[0].Line, errs[0].Column, line[errs[0].Column-1], want, line)
	}
}
