package actionlint

import (
	"io"
	"strings"
	"testing"
)

// Property C17: "each report's column lies inside the pattern at the offending character
// (which is the character the message names, when it names one)".
//
// The checks below lint a workflow whose only glob problem is ONE ref-forbidden character
// (a space, '~' or '^'), and require that the (line, column) of the glob diagnostic
// addresses exactly that character in the YAML source.

func huntC17N1Lint(t *testing.T, src string) []*Error {
	t.Helper()
	l, err := NewLinter(io.Discard, &LinterOptions{})
	if err != nil {
		t.Fatal(err)
	}
	errs, err := l.Lint("test.yaml", []byte(src), nil)
	if err != nil {
		t.Fatal(err)
	}
	var ret []*Error
	for _, e := range errs {
		if e.Kind == "glob" {
			ret = append(ret, e)
		} else {
			t.Fatalf("unexpected non-glob error (test input is wrong): %v", e)
		}
	}
	return ret
}

// huntC17N1CharAt returns the character at 1-based (line, col) of src, col counted in characters.
// ok is false when the position is outside of the text of that line.
func huntC17N1CharAt(src string, line, col int) (r rune, ok bool) {
	lines := strings.Split(src, "\n")
	if line < 1 || line > len(lines) {
		return 0, false
	}
	rs := []rune(lines[line-1])
	if col < 1 || col > len(rs) {
		return 0, false
	}
	return rs[col-1], true
}

func huntC17N1Check(t *testing.T, src string, offending rune) {
	t.Helper()
	// The offending character occurs exactly once in the source.
	if strings.Count(src, string(offending)) != 1 && offending != ' ' {
		t.Fatalf("test input is wrong: %q must occur once", offending)
	}
	errs := huntC17N1Lint(t, src)
	if len(errs) != 1 {
		t.Fatalf("wanted exactly one glob error but got %v", errs)
	}
	e := errs[0]
	if !strings.Contains(e.Message, "character '"+string(offending)+"' is invalid for branch and tag names") {
		t.Fatalf("unexpected message: %s", e.Message)
	}
	c, ok := huntC17N1CharAt(src, e.Line, e.Column)
	if !ok {
		t.Fatalf("diagnostic naming %q is reported at %d:%d, which is outside of the text of that source line (not inside the pattern)", offending, e.Line, e.Column)
	}
	if c != offending {
		t.Fatalf("diagnostic naming %q is reported at %d:%d, but the character there is %q", offending, e.Line, e.Column, c)
	}
}

const huntC17N1Tail = "jobs:\n  a:\n    runs-on: ubuntu-latest\n    steps:\n      - run: echo\n"

// '' in a single-quoted scalar is one character of the pattern but two in the source.
func TestHuntC17N1SingleQuotedEscape(t *testing.T) {
	src := "on:\n  push:\n    branches:\n      - 'it''s~x'\n" + huntC17N1Tail
	huntC17N1Check(t, src, '~')
}

// \u0061 in a double-quoted scalar is one character of the pattern but six in the source.
func TestHuntC17N1DoubleQuotedEscape(t *testing.T) {
	src := "on:\n  push:\n    branches:\n      - \"\\u0061bc~d\"\n" + huntC17N1Tail
	huntC17N1Check(t, src, '~')
}

// Literal block scalar: the pattern text is on the line after the '|-' indicator.
func TestHuntC17N1LiteralBlockScalar(t *testing.T) {
	src := "on:\n  push:\n    branches:\n      - |-\n        foo^bar\n" + huntC17N1Tail
	huntC17N1Check(t, src, '^')
}

// Plain multi-line scalar: "foo\n        bar~" is the pattern "foo bar~"; use a tags filter so that
// only one filter is involved, and check the '~' diagnostic (second of two).
func TestHuntC17N1PlainMultiLineScalar(t *testing.T) {
	src := "on:\n  push:\n    tags:\n      - v1\n        bar~\n" + huntC17N1Tail
	errs := huntC17N1Lint(t, src)
	found := false
	for _, e := range errs {
		if !strings.Contains(e.Message, "character '~' is invalid") {
			continue
		}
		found = true
		c, ok := huntC17N1CharAt(src, e.Line, e.Column)
		if !ok || c != '~' {
			t.Fatalf("diagnostic naming '~' is reported at %d:%d, but the character there is %q (inside line text: %v); '~' is at 5:12", e.Line, e.Column, c, ok)
		}
	}
	if !found {
		t.Fatalf("no diagnostic for '~': %v", errs)
	}
}
