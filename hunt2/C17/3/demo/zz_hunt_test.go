package actionlint

import (
	"io"
	"testing"
)

// Property C17: "A branches/tags/paths filter is reported iff it violates GitHub's filter-pattern
// syntax (... `?` and `+` after a non-special character ... leading `!` ...) or, for branch and tag
// filters, the Git ref-name character rules."
//
// U+FEFF (ZERO WIDTH NO-BREAK SPACE) is an ordinary, non-special character of the pattern language
// and is allowed in Git ref names (any non-ASCII character is). The validator agrees when it occurs
// anywhere but at the first position: "a\uFEFF?" is accepted. At the first position, however,
// text/scanner silently drops it as a byte order mark, so the validator judges the pattern as if
// the SECOND character were the first one and reports patterns which do not violate the syntax.

const huntC17N3Bom = "\uFEFF"

// `?` / `+` directly after an ordinary character is valid.
func TestHuntC17N3QuantifierAfterLeadingFEFF(t *testing.T) {
	for _, pat := range []string{huntC17N3Bom + "?", huntC17N3Bom + "+", huntC17N3Bom + "?.txt", huntC17N3Bom + "+/x"} {
		// control: the same pattern with the ordinary character not at the first position, and
		// with another ordinary non-ASCII character at the first position, is accepted
		if errs := ValidatePathGlob("a" + pat); len(errs) != 0 {
			t.Fatalf("control %q: %v", "a"+pat, errs)
		}
		if errs := ValidatePathGlob("\u200B" + pat[len(huntC17N3Bom):]); len(errs) != 0 {
			t.Fatalf("control with U+200B: %v", errs)
		}
		if errs := ValidatePathGlob(pat); len(errs) != 0 {
			t.Errorf("path filter %q does not violate the filter syntax (the quantifier follows the ordinary character U+FEFF) but is reported: %v", pat, errs)
		}
		if errs := ValidateRefGlob(pat); len(errs) != 0 {
			t.Errorf("ref filter %q does not violate the filter syntax but is reported: %v", pat, errs)
		}
	}
}

// `!` is only special as the FIRST character of the pattern; `/` is only forbidden as the FIRST
// character of a ref name.
func TestHuntC17N3SecondCharacterTreatedAsFirst(t *testing.T) {
	pat := huntC17N3Bom + "!"
	if errs := ValidatePathGlob("x!"); len(errs) != 0 {
		t.Fatalf("control: %v", errs)
	}
	if errs := ValidatePathGlob(pat); len(errs) != 0 {
		t.Errorf("path filter %q: the '!' is not the leading character, so it is an ordinary character, but: %v", pat, errs)
	}
	pat = huntC17N3Bom + "!+"
	if errs := ValidatePathGlob(pat); len(errs) != 0 {
		t.Errorf("path filter %q: the '+' follows the ordinary (non-leading) '!', but: %v", pat, errs)
	}
	pat = huntC17N3Bom + "/main"
	if errs := ValidateRefGlob("x/main"); len(errs) != 0 {
		t.Fatalf("control: %v", errs)
	}
	if errs := ValidateRefGlob(pat); len(errs) != 0 {
		t.Errorf("ref filter %q does not start with '/', but: %v", pat, errs)
	}
}

// The same through the linter. "\uFEFF" in a double-quoted YAML scalar is the character U+FEFF.
func TestHuntC17N3InWorkflow(t *testing.T) {
	src := "on:\n  push:\n    paths:\n      - \"\\uFEFF?.md\"\njobs:\n  a:\n    runs-on: ubuntu-latest\n    steps:\n      - run: echo\n"
	l, err := NewLinter(io.Discard, &LinterOptions{})
	if err != nil {
		t.Fatal(err)
	}
	errs, err := l.Lint("test.yaml", []byte(src), nil)
	if err != nil {
		t.Fatal(err)
	}
	if len(errs) != 0 {
		t.Fatalf("the paths filter is valid (`?` follows an ordinary character) but diagnostics are reported: %v", errs)
	}
}
