package actionlint

import (
	"io"
	"strings"
	"testing"
)

func huntC18N3Lint(t *testing.T, src string) []*Error {
	t.Helper()
	l, err := NewLinter(io.Discard, &LinterOptions{})
	if err != nil {
		t.Fatal(err)
	}
	errs, err := l.Lint("test.yaml", []byte(src), nil)
	if err != nil {
		t.Fatal(err)
	}
	return errs
}

func huntC18N3Check(t *testing.T, src string, line, col int) {
	t.Helper()
	errs := huntC18N3Lint(t, src)
	found := false
	for _, e := range errs {
		t.Logf("%d:%d [%s] %s", e.Line, e.Column, e.Kind, e.Message)
		if e.Kind == "job-needs" && strings.Contains(e.Message, "zzz") && strings.Contains(e.Message, "does not exist") && e.Line == line && e.Column == col {
			found = true
		}
	}
	if !found {
		t.Errorf("reference to non-existing job \"zzz\" was not reported at the referring job (%d:%d)", line, col)
	}
}

// The job whose key is the empty string is parsed, visited and checked by the other rules, but its
// "needs" entries are never entered into the graph, so its dangling reference is not reported.
func TestHuntC18N3EmptyKeyJob(t *testing.T) {
	src := "on: push\n" +
		"jobs:\n" +
		"  \"\":\n" +
		"    runs-on: ubuntu-latest\n" +
		"    needs: [zzz]\n" +
		"    steps:\n" +
		"      - run: echo\n" +
		"  b:\n" +
		"    runs-on: ubuntu-latest\n" +
		"    steps:\n" +
		"      - run: echo\n"
	huntC18N3Check(t, src, 3, 3)
}

// Same for a job whose key is not a scalar (the parser gives it the empty ID).
func TestHuntC18N3NonScalarKeyJob(t *testing.T) {
	src := "on: push\n" +
		"jobs:\n" +
		"  [a]:\n" +
		"    runs-on: ubuntu-latest\n" +
		"    needs: [zzz]\n" +
		"    steps:\n" +
		"      - run: echo\n" +
		"  b:\n" +
		"    runs-on: ubuntu-latest\n" +
		"    steps:\n" +
		"      - run: echo\n"
	huntC18N3Check(t, src, 3, 3)
}
