package actionlint

import (
	"io"
	"strings"
	"testing"
)

func huntC18N1Lint(t *testing.T, src string) []*Error {
	t.Helper()
	l, err := NewLinter(io.Discard, &LinterOptions{})
	if err != nil {
		t.Fatal(err)
	}
	errs, err := l.Lint("test.yaml", []byte(src), nil)
	if err != nil {
		t.Fatal(err)
	}
	return errs
}

// Job "b" needs "İ" (U+0130 LATIN CAPITAL LETTER I WITH DOT ABOVE). The only jobs are "i" and "b".
// "İ" is not a case variant of "i": strings.EqualFold("İ", "i") is false, Unicode full lowercasing
// of "İ" is "i̇" (two code points), and ASCII/ordinal case-insensitive comparison keeps them apart.
// So the reference is dangling and must be reported at job "b" (line 7, col 3).
func TestHuntC18N1DanglingDottedCapitalI(t *testing.T) {
	src := "on: push\n" +
		"jobs:\n" +
		"  i:\n" +
		"    runs-on: ubuntu-latest\n" +
		"    steps:\n" +
		"      - run: echo\n" +
		"  b:\n" +
		"    runs-on: ubuntu-latest\n" +
		"    needs: [\u0130]\n" +
		"    steps:\n" +
		"      - run: echo\n"

	if strings.EqualFold("\u0130", "i") {
		t.Fatal("precondition: U+0130 and 'i' are not equal under case folding")
	}

	errs := huntC18N1Lint(t, src)
	found := false
	for _, e := range errs {
		t.Logf("%d:%d [%s] %s", e.Line, e.Column, e.Kind, e.Message)
		if e.Kind == "job-needs" && strings.Contains(e.Message, "does not exist") && e.Line == 7 && e.Column == 3 {
			found = true
		}
	}
	if !found {
		t.Errorf("reference to non-existing job %q from job \"b\" was not reported by job-needs at the referring job (7:3)", "\u0130")
	}
}

// Same confusion makes the rule print a cycle that is not a cycle of the graph: job "i" needs "İ",
// which is a dangling reference, not a self dependency.
func TestHuntC18N1FakeSelfCycle(t *testing.T) {
	src := "on: push\n" +
		"jobs:\n" +
		"  i:\n" +
		"    runs-on: ubuntu-latest\n" +
		"    needs: [\u0130]\n" +
		"    steps:\n" +
		"      - run: echo\n"

	errs := huntC18N1Lint(t, src)
	dangling := false
	for _, e := range errs {
		t.Logf("%d:%d [%s] %s", e.Line, e.Column, e.Kind, e.Message)
		if e.Kind == "job-needs" && strings.Contains(e.Message, "cyclic dependencies") {
			t.Errorf("cycle reported for a graph without any resolvable edge: %s", e.Message)
		}
		if e.Kind == "job-needs" && strings.Contains(e.Message, "does not exist") {
			dangling = true
		}
	}
	if !dangling {
		t.Errorf("dangling reference %q was not reported by job-needs", "\u0130")
	}
}
