package actionlint

import (
	"io"
	"strings"
	"testing"
)

func huntC18N2Lint(t *testing.T, src string) []*Error {
	t.Helper()
	l, err := NewLinter(io.Discard, &LinterOptions{})
	if err != nil {
		t.Fatal(err)
	}
	errs, err := l.Lint("test.yaml", []byte(src), nil)
	if err != nil {
		t.Fatal(err)
	}
	return errs
}

// Job "ς" (U+03C2 GREEK SMALL LETTER FINAL SIGMA) needs "Σ" (U+03A3 GREEK CAPITAL LETTER SIGMA).
// The two differ only in case: strings.EqualFold reports them equal, and the upper case of both is
// "Σ". Compared case-insensitively the reference resolves to the job itself, so all references
// resolve and the graph has a self dependency: exactly one cyclic-dependency diagnostic and no
// "does not exist" diagnostic are expected.
func TestHuntC18N2FinalSigmaSelfDependency(t *testing.T) {
	src := "on: push\n" +
		"jobs:\n" +
		"  \u03c2:\n" +
		"    runs-on: ubuntu-latest\n" +
		"    needs: [\u03a3]\n" +
		"    steps:\n" +
		"      - run: echo\n"

	if !strings.EqualFold("\u03c2", "\u03a3") || strings.ToUpper("\u03c2") != strings.ToUpper("\u03a3") {
		t.Fatal("precondition: final sigma and capital sigma are equal ignoring case")
	}

	errs := huntC18N2Lint(t, src)
	cycles := 0
	for _, e := range errs {
		t.Logf("%d:%d [%s] %s", e.Line, e.Column, e.Kind, e.Message)
		if e.Kind != "job-needs" {
			continue
		}
		if strings.Contains(e.Message, "does not exist") {
			t.Errorf("reference that resolves case-insensitively was reported as dangling: %s", e.Message)
		}
		if strings.Contains(e.Message, "cyclic dependencies") {
			cycles++
		}
	}
	if cycles != 1 {
		t.Errorf("self dependency must give exactly one cyclic-dependency diagnostic, got %d", cycles)
	}
}
