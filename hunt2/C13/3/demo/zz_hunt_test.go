package actionlint

import (
	"io"
	"testing"
)

// "An unknown or duplicate key never suppresses the diagnostics of its sibling keys."
// Inserting one key which is foreign to a reusable workflow call job ("timeout-minutes")
// removes every diagnostic of its siblings "uses", "with" and "secrets".

func huntC13N3Lint(t *testing.T, src string) []*Error {
	l, err := NewLinter(io.Discard, &LinterOptions{})
	if err != nil {
		t.Fatal(err)
	}
	errs, err := l.Lint("test.yaml", []byte(src), nil)
	if err != nil {
		t.Fatal(err)
	}
	for _, e := range errs {
		t.Logf("  %d:%d [%s] %s", e.Line, e.Column, e.Kind, e.Message)
	}
	return errs
}

func TestHuntC13N3ForeignKeyInCallJobKeepsSiblingDiagnostics(t *testing.T) {
	original := `on: push
jobs:
  a:
    uses: not-a-valid-spec
    with:
      x: ${{ nosuch.ctx }}
    secrets:
      y: ${{ 1 + }}
`
	mutated := original + "    timeout-minutes: 5\n"

	t.Log("original:")
	before := huntC13N3Lint(t, original)
	t.Log("with foreign key \"timeout-minutes\" inserted at 9:5:")
	after := huntC13N3Lint(t, mutated)

	if len(before) != 3 {
		t.Fatalf("the original workflow is expected to have 3 diagnostics (uses format, undefined variable in with, syntax error in secrets) but got %d", len(before))
	}

	// Control: a key which is unknown for every kind of job does not suppress anything
	if ctrl := huntC13N3Lint(t, original+"    foo: 5\n"); len(ctrl) != len(before)+1 {
		t.Fatalf("control failed: want %d diagnostics with unknown key \"foo\" but got %d", len(before)+1, len(ctrl))
	}

	// The foreign key itself must be reported at the key
	found := false
	for _, e := range after {
		if e.Line == 9 && e.Column == 5 {
			found = true
		}
	}
	if !found {
		t.Errorf("foreign key \"timeout-minutes\" is not reported at 9:5")
	}

	// Every diagnostic of the siblings must still be there
	for _, b := range before {
		kept := false
		for _, a := range after {
			if a.Line == b.Line && a.Column == b.Column && a.Kind == b.Kind && a.Message == b.Message {
				kept = true
				break
			}
		}
		if !kept {
			t.Errorf("diagnostic of a sibling key was suppressed by the foreign key: %d:%d [%s] %.80s...", b.Line, b.Column, b.Kind, b.Message)
		}
	}
}
