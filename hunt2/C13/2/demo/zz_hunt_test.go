package actionlint

import (
	"io"
	"testing"
)

// "services" is not in the key set of a job which calls a reusable workflow (the set which
// actionlint itself names is name/uses/with/secrets/needs/if/permissions; GitHub additionally
// accepts strategy and concurrency). It is not reported at all, neither by the parser nor by
// any rule.
func TestHuntC13N2ServicesInCallJobIsReported(t *testing.T) {
	src := `on: push
jobs:
  a:
    uses: owner/repo/.github/workflows/w.yml@v1
    services:
      redis:
        image: redis
`
	// Control: another steps-only key at the same place IS reported, so this kind of job does have a fixed key set.
	{
		_, errs := Parse([]byte(`on: push
jobs:
  a:
    uses: owner/repo/.github/workflows/w.yml@v1
    container:
      image: redis
`))
		found := false
		for _, e := range errs {
			if e.Line == 5 && e.Column == 5 {
				found = true
			}
		}
		if !found {
			t.Fatalf("control failed: \"container\" in call job is not reported")
		}
	}

	// Parser only
	_, errs := Parse([]byte(src))
	for _, e := range errs {
		t.Logf("  parse: %d:%d [%s] %s", e.Line, e.Column, e.Kind, e.Message)
	}
	found := false
	for _, e := range errs {
		if e.Line == 5 && e.Column == 5 {
			found = true
		}
	}
	if !found {
		t.Errorf("parser: foreign key \"services\" at 5:5 of the reusable workflow call job is not reported (%d syntax-check errors in total)", len(errs))
	}

	// Whole linter (all rules, no external commands)
	l, err := NewLinter(io.Discard, &LinterOptions{})
	if err != nil {
		t.Fatal(err)
	}
	all, err := l.Lint("test.yaml", []byte(src), nil)
	if err != nil {
		t.Fatal(err)
	}
	for _, e := range all {
		t.Logf("  lint: %d:%d [%s] %s", e.Line, e.Column, e.Kind, e.Message)
	}
	found = false
	for _, e := range all {
		if e.Line == 5 && e.Column == 5 {
			found = true
		}
	}
	if !found {
		t.Errorf("linter: foreign key \"services\" at 5:5 of the reusable workflow call job is not reported by any rule (%d errors in total)", len(all))
	}
}
