package actionlint

import (
	"strings"
	"testing"
)

// Every key of the job mapping which is outside the key set of the job kind must be
// reported at that key. Only the last one is reported.

func huntC13N1ReportedAt(errs []*Error, line, col int, word string) bool {
	for _, e := range errs {
		if e.Line == line && e.Column == col && strings.Contains(e.Message, word) {
			return true
		}
	}
	return false
}

func huntC13N1Dump(t *testing.T, errs []*Error) {
	for _, e := range errs {
		t.Logf("  %d:%d [%s] %s", e.Line, e.Column, e.Kind, e.Message)
	}
}

// A job calling a reusable workflow accepts only name/uses/with/secrets/needs/if/permissions
// (actionlint's own message says so). "runs-on" and "steps" are both outside that set.
func TestHuntC13N1CallJobEveryForeignKeyIsReported(t *testing.T) {
	src := `on: push
jobs:
  a:
    uses: owner/repo/.github/workflows/w.yml@v1
    runs-on: ubuntu-latest
    steps:
      - run: echo hi
`
	_, errs := Parse([]byte(src))
	huntC13N1Dump(t, errs)
	if !huntC13N1ReportedAt(errs, 6, 5, `"steps"`) {
		t.Errorf("foreign key \"steps\" at 6:5 of the reusable workflow call job is not reported at that key")
	}
	if !huntC13N1ReportedAt(errs, 5, 5, `"runs-on"`) {
		t.Errorf("foreign key \"runs-on\" at 5:5 of the reusable workflow call job is not reported at that key")
	}
}

// The same with the keys in the other order: the key which is reported depends on the order.
func TestHuntC13N1CallJobEveryForeignKeyIsReportedManyKeys(t *testing.T) {
	src := `on: push
jobs:
  a:
    uses: owner/repo/.github/workflows/w.yml@v1
    timeout-minutes: 3
    continue-on-error: true
    env:
      A: b
    container: node
    outputs:
      a: b
    environment: prod
    defaults:
      run:
        shell: bash
`
	_, errs := Parse([]byte(src))
	huntC13N1Dump(t, errs)
	for _, k := range []struct {
		line int
		key  string
	}{
		{5, "timeout-minutes"},
		{6, "continue-on-error"},
		{7, "env"},
		{9, "container"},
		{10, "outputs"},
		{12, "environment"},
		{13, "defaults"},
	} {
		if !huntC13N1ReportedAt(errs, k.line, 5, `"`+k.key+`"`) {
			t.Errorf("foreign key %q at %d:5 of the reusable workflow call job is not reported at that key", k.key, k.line)
		}
	}
}

// A normal job (with "steps") does not accept "with" nor "secrets". Both are outside the set.
func TestHuntC13N1NormalJobEveryForeignKeyIsReported(t *testing.T) {
	src := `on: push
jobs:
  a:
    runs-on: ubuntu-latest
    with:
      a: b
    secrets:
      c: d
    steps:
      - run: echo hi
`
	_, errs := Parse([]byte(src))
	huntC13N1Dump(t, errs)
	if !huntC13N1ReportedAt(errs, 7, 5, `"secrets"`) {
		t.Errorf("foreign key \"secrets\" at 7:5 of the normal job is not reported at that key")
	}
	if !huntC13N1ReportedAt(errs, 5, 5, `"with"`) {
		t.Errorf("foreign key \"with\" at 5:5 of the normal job is not reported at that key")
	}
}
