package actionlint

import (
	"io"
	"strings"
	"testing"
)

// "a key outside the set is reported at that key". The keys below are outside the key set of
// their mapping and they are reported, but the diagnostic points to another token.

func huntC13N4Find(errs []*Error, word string) *Error {
	for _, e := range errs {
		if strings.Contains(e.Message, word) {
			return e
		}
	}
	return nil
}

// "working-directory" is outside the key set of a step which runs an action with "uses".
// The diagnostic is put at the value of the key, not at the key.
func TestHuntC13N4WorkingDirectoryWithUsesIsReportedAtTheKey(t *testing.T) {
	src := `on: push
jobs:
  a:
    runs-on: ubuntu-latest
    steps:
      - uses: actions/checkout@v4
        working-directory: some/dir
`
	// Control: the sibling case "shell" with "uses" is reported at the key (7:9)
	{
		_, errs := Parse([]byte(strings.Replace(src, "working-directory: some/dir", "shell: bash", 1)))
		if e := huntC13N4Find(errs, `"shell" key`); e == nil || e.Line != 7 || e.Column != 9 {
			t.Fatalf("control failed: %v", errs)
		}
	}

	_, errs := Parse([]byte(src))
	for _, e := range errs {
		t.Logf("  %d:%d [%s] %s", e.Line, e.Column, e.Kind, e.Message)
	}
	e := huntC13N4Find(errs, `"working-directory"`)
	if e == nil {
		t.Fatal("\"working-directory\" in a step with \"uses\" is not reported")
	}
	// key `working-directory` starts at 7:9, its value `some/dir` at 7:28
	if e.Line != 7 || e.Column != 9 {
		t.Errorf("\"working-directory\" key is at 7:9 but it is reported at %d:%d: %s", e.Line, e.Column, e.Message)
	}
}

// "workflows" is outside the key set of the "pull_request" event and "types" is outside the
// key set of the "push" event. They are reported at the event name, not at the key. (The
// sibling case of a filter which is not available, e.g. "tags" for pull_request, is reported
// at the key.)
func TestHuntC13N4EventKeysAreReportedAtTheKey(t *testing.T) {
	src := `on:
  pull_request: {branches: [main], workflows: [x], tags: [v1]}
  push:
    branches: main
    types: [created]
jobs:
  a:
    runs-on: ubuntu-latest
    steps:
      - run: echo hi
`
	l, err := NewLinter(io.Discard, &LinterOptions{})
	if err != nil {
		t.Fatal(err)
	}
	errs, err := l.Lint("test.yaml", []byte(src), nil)
	if err != nil {
		t.Fatal(err)
	}
	for _, e := range errs {
		t.Logf("  %d:%d [%s] %s", e.Line, e.Column, e.Kind, e.Message)
	}

	if e := huntC13N4Find(errs, `"tags" filter is not available`); e == nil || e.Line != 2 || e.Column != 52 {
		t.Errorf("control failed: \"tags\" key at 2:52 is not reported there: %v", e)
	}

	if e := huntC13N4Find(errs, `"workflows" cannot be configured`); e == nil {
		t.Errorf("\"workflows\" key for pull_request is not reported")
	} else if e.Line != 2 || e.Column != 36 {
		t.Errorf("\"workflows\" key is at 2:36 but it is reported at %d:%d: %s", e.Line, e.Column, e.Message)
	}

	if e := huntC13N4Find(errs, `"types" cannot be specified`); e == nil {
		t.Errorf("\"types\" key for push is not reported")
	} else if e.Line != 5 || e.Column != 5 {
		t.Errorf("\"types\" key is at 5:5 but it is reported at %d:%d: %s", e.Line, e.Column, e.Message)
	}
}
